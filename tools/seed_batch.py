'''Process every seeded_out/<n> directory of the given sub-agent worktrees: read 'Property: Cxx' from notes.txt, pick the next
free seed id, confirm and record with tools/seed.py.   tools/seed_batch.py <worktree> [...]'''
import glob, os, re, subprocess, sys, json
VERIF='/verif'
def next_id(prop):
    ns=[int(d.split('-')[-1]) for d in glob.glob(f'{VERIF}/seeded/{prop}-*')]
    return f'{prop}-{max(ns+[0])+1}'
for wt in sys.argv[1:]:
    for d in sorted(glob.glob(f'{wt}/seeded_out/*')):
        notes=open(os.path.join(d,'notes.txt')).read()
        m=re.search(r'Property:\s*(C\d\d)', notes)
        prop=m.group(1)
        sid=next_id(prop)
        checks={'C01':'C01,C02','C02':'C02,C01','C05':'C05,C03','C04':'C04','C15':'C15,C03','C13':'C13','C19':'C19,C16','C10':'C10,C11','C11':'C11,C10','C17':'C17,C16','C20':'C20,C07','C09':'C09,C08','C07':'C07,C10'}.get(prop, prop)
        print('#####', d, prop, sid, flush=True)
        r=subprocess.run(['python3', f'{VERIF}/tools/seed.py', prop, d, sid, wt, '--checks', checks], capture_output=True, text=True)
        print(r.stdout[-1500:], r.stderr[-500:], flush=True)
print('BATCH2-DONE')
