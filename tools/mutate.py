#!/usr/bin/env python3
'''Operator-flip mutation smoke test of the deductive part (not part of any property's verdict).

For functions under (non-trusted) contract, one comparison operator or one +/- is flipped at a time in a scratch worktree of
/repo; the unit's own check is run with `--only <function>` (deductive obligations only, no bounded stand-in) and the outcome
recorded: detected (exit 1), undecided (exit 2/3: the change left the modelled subset or the solvers gave up), silent (exit 0).
Silent mutants are either equivalent or outside what the contract states - they are listed for triage.

    python3 tools/mutate.py [--max 48] [--workers 4] [--seed 1]      (report: /verif/out/mutation_report.json)
'''
import argparse
import ast
import json
import os
import random
import subprocess
import sys
from concurrent.futures import ThreadPoolExecutor

VERIF = os.path.dirname(os.path.dirname(os.path.abspath(__file__)))
sys.path.insert(0, VERIF)
FLIP = {ast.Lt: '<=', ast.LtE: '<', ast.Gt: '>=', ast.GtE: '>', ast.Eq: '!=', ast.NotEq: '=='}
SYM = {ast.Lt: '<', ast.LtE: '<=', ast.Gt: '>', ast.GtE: '>=', ast.Eq: '==', ast.NotEq: '!='}


def candidates():
    from pyvc.verifier import load_registry
    from pyvc import extract
    reg = load_registry()
    repo = extract.Repo('/repo')
    out = []
    for key, c in sorted(reg.contracts.items()):
        if c.trusted or key.startswith(('ext:', 'harness:', 'builtin:')) or not c.props or getattr(c, 'inline', False):
            continue
        relpath, qual = key.split(':')
        try:
            mod = repo.module(relpath)
        except Exception:
            continue
        fnode = mod.functions.get(qual)
        if fnode is None:
            continue
        lines = mod.source.splitlines()
        for n in ast.walk(fnode):
            if isinstance(n, ast.Compare) and len(n.ops) == 1 and type(n.ops[0]) in FLIP:
                left_end = (n.left.end_lineno, n.left.end_col_offset)
                right_start = (n.comparators[0].lineno, n.comparators[0].col_offset)
                if left_end[0] != right_start[0]:
                    continue
                seg = lines[left_end[0] - 1][left_end[1]:right_start[1]]
                sym = SYM[type(n.ops[0])]
                if seg.strip() != sym:
                    continue
                out.append({'key': key, 'prop': c.props[0], 'relpath': relpath, 'line': left_end[0], 'col': left_end[1],
                            'end': right_start[1], 'old': seg, 'new': seg.replace(sym, FLIP[type(n.ops[0])]),
                            'text': lines[left_end[0] - 1].strip()})
    return out


def run_one(args):
    m, wt = args
    path = os.path.join(wt, m['relpath'])
    src = open(path).read().splitlines(keepends=True)
    orig = src[m['line'] - 1]
    src[m['line'] - 1] = orig[:m['col']] + m['new'] + orig[m['end']:]
    open(path, 'w').write(''.join(src))
    try:
        fn = m['key'].split(':')[1]
        p = subprocess.run(['./verif', 'check', m['prop'], '--only', fn, '--jobs', '4'], cwd=VERIF, capture_output=True, text=True,
                           env=dict(os.environ, VERIF_REPO=wt), timeout=1500)
        rc = p.returncode
        lines = [l[:200] for l in p.stdout.splitlines() if l.startswith(('VIOLATION', 'ENGINE-ERROR', 'UNDECIDED'))][:3]
    except subprocess.TimeoutExpired:
        rc, lines = 3, ['timeout']
    finally:
        subprocess.run(['git', 'checkout', '--', '.'], cwd=wt, capture_output=True)
    m = dict(m)
    m['exit'] = rc
    m['lines'] = lines
    m['outcome'] = {1: 'detected', 0: 'silent'}.get(rc, 'undecided')
    return m


def main():
    ap = argparse.ArgumentParser()
    ap.add_argument('--max', type=int, default=48)
    ap.add_argument('--workers', type=int, default=4)
    ap.add_argument('--seed', type=int, default=1)
    a = ap.parse_args()
    cands = candidates()
    rnd = random.Random(a.seed)
    rnd.shuffle(cands)
    # at most two per function
    per, chosen = {}, []
    for c in cands:
        if per.get(c['key'], 0) < 2 and len(chosen) < a.max:
            per[c['key']] = per.get(c['key'], 0) + 1
            chosen.append(c)
    wts = []
    for i in range(a.workers):
        wt = f'/tmp/wt-mut{i}'
        subprocess.run(['git', '-C', '/repo', 'worktree', 'add', '-f', wt, 'HEAD'], capture_output=True)
        wts.append(wt)
    results = []
    try:
        chunks = [chosen[i::a.workers] for i in range(a.workers)]

        def work(i):
            return [run_one((m, wts[i])) for m in chunks[i]]
        with ThreadPoolExecutor(a.workers) as ex:
            for rs in ex.map(work, range(a.workers)):
                results += rs
    finally:
        for wt in wts:
            subprocess.run(['git', '-C', '/repo', 'worktree', 'remove', '--force', wt], capture_output=True)
        subprocess.run(['git', '-C', '/repo', 'worktree', 'prune'], capture_output=True)
    os.makedirs(os.path.join(VERIF, 'out'), exist_ok=True)
    json.dump(results, open(os.path.join(VERIF, 'out', 'mutation_report.json'), 'w'), indent=1)
    tally = {}
    for r in results:
        tally[r['outcome']] = tally.get(r['outcome'], 0) + 1
    print(len(cands), 'candidate sites;', len(results), 'mutants run;', tally)
    for r in results:
        if r['outcome'] != 'detected':
            print(f"  {r['outcome']:9s} {r['key'].split(':')[1]:45s} {r['old'].strip()} -> {r['new'].strip()}   {r['text'][:90]}")


if __name__ == '__main__':
    main()
