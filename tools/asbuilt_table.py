#!/usr/bin/env python3
'''Print the "as built" markdown table from /verif/evidence/*.json (what the last quick run of each check covered).'''
import glob
import json
import os

VERIF = os.path.dirname(os.path.dirname(os.path.abspath(__file__)))


def short(f):
    return f.split(':', 1)[1] if ':' in f else f


def main():
    print('| id | level | functions / lemmas under deductive contract (obligations proved, paths) | bounded stand-ins (labelled, never counted) | known findings hit |')
    print('|---|---|---|---|---|')
    tot_o = tot_f = 0
    for p in sorted(glob.glob(os.path.join(VERIF, 'evidence', 'C*.json'))):
        e = json.load(open(p))
        c = e['coverage']
        fns = []
        for f in c['functions_under_contract']:
            name = f.get('function') or f.get('lemma') or f.get('unit') or '?'
            fns.append(f"`{short(name)}` ({f.get('obligations', '?')}, {f.get('paths', 1)})")
        tot_o += c['discharged']
        tot_f += len(fns)
        b = '; '.join(f"{x['clause'][:110]}… [{x['bound'][:90]}…]" for x in c.get('bounded_stand_ins', [])) or '—'
        kf = ', '.join(sorted({k if isinstance(k, str) else k.get('id', '?') for k in c.get('known_findings_hit', [])})) or '—'
        print(f"| {e['property_id']} | {e['level']} | {'; '.join(fns)} — **{c['discharged']}/{c['obligations']}** discharged, "
              f"{c['solver_seconds']} s solver, {e['wall_s']} s wall | {b} | {kf} |")
    print(f'\nTotals: {tot_f} functions/lemmas under contract, {tot_o} obligations discharged.')


if __name__ == '__main__':
    main()
