#!/usr/bin/env python3
'''Print the markdown table "which check catches which seeded change" from /verif/seeded/*/meta.json.'''
import glob
import json
import os
import re

VERIF = os.path.dirname(os.path.dirname(os.path.abspath(__file__)))


def main():
    print('| seed | property | change (first line of the author\'s note) | checks run | result | obligation / driver that reports it |')
    print('|---|---|---|---|---|---|')
    for d in sorted(glob.glob(os.path.join(VERIF, 'seeded', '*')), key=lambda p: (p.split('/')[-1].split('-')[0], int(p.split('-')[-1]))):
        mp = os.path.join(d, 'meta.json')
        if not os.path.exists(mp):
            continue
        m = json.load(open(mp))
        note = [l for l in (m.get('needs_to_manifest') or '').strip().splitlines() if not l.startswith('Property:')]
        first = re.sub(r'^(Change|BONUS[^:]*):?\s*', '', note[0]) if note else ''
        if note and note[0].startswith('BONUS') and len(note) > 1:
            first = re.sub(r'^Change:\s*', '', note[1])
        first = first.replace('|', '/')[:230]
        res, where = [], []
        for pid, r in m['check_results'].items():
            res.append(f"{pid}: exit {r['exit']}")
            for l in r['lines']:
                if l.startswith('VIOLATION'):
                    mm = re.search(r'replay=\S*/' + pid + r'-(\S+?)\.json( no-failing-input-found)?', l)
                    if mm:
                        where.append(mm.group(1) + (' (no concrete input)' if mm.group(2) else ' (replayed input)'))
        det = 'caught' if m['detected'] else ('not a violation under the statement as read (see note)' if m.get('judgement') else '**missed**')
        if m.get('judgement'):
            where.append(m['judgement'][:400])
        print(f"| {m['seed_id']} | {m['property']} | {first} | {', '.join(m['check_results'])} | {det} ({'; '.join(res)}) | {'; '.join(dict.fromkeys(where))[:460]} |")


if __name__ == '__main__':
    main()
