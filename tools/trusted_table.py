#!/usr/bin/env python3
'''Print the trusted base as built: every assumption string recorded in /verif/evidence/*.json with the properties that use it.'''
import glob
import json
import os

VERIF = os.path.dirname(os.path.dirname(os.path.abspath(__file__)))


def main():
    by = {}
    for p in sorted(glob.glob(os.path.join(VERIF, 'evidence', 'C*.json'))):
        e = json.load(open(p))
        for a in set(e.get('assumptions', [])) | set(e['coverage'].get('trusted_base', [])):
            by.setdefault(a, []).append(e['property_id'])
    print('| assumption (as recorded by the runs) | used by |')
    print('|---|---|')
    for a in sorted(by):
        print(f"| {a.replace('|', '/')[:420]} | {', '.join(sorted(set(by[a])))} |")
    print(f'\n{len(by)} assumptions in all.')


if __name__ == '__main__':
    main()
