#!/usr/bin/env python3
'''Regenerate the generated tables of DESIGN.md (between the BEGIN/END markers) from evidence/ and seeded/.'''
import os
import re
import subprocess
import sys

VERIF = os.path.dirname(os.path.dirname(os.path.abspath(__file__)))


def gen(tool):
    return subprocess.run([sys.executable, os.path.join(VERIF, 'tools', tool)], capture_output=True, text=True).stdout


def main():
    p = os.path.join(VERIF, 'DESIGN.md')
    s = open(p).read()
    for marker, tool in (('ASBUILT', 'asbuilt_table.py'), ('SEEDED-TABLE', 'seed_table.py'), ('TRUSTED', 'trusted_table.py')):
        pat = re.compile(rf'(<!-- {marker}-BEGIN -->\n).*?(<!-- {marker}-END -->)', re.S)
        if not pat.search(s):
            print('marker missing:', marker)
            continue
        s = pat.sub(lambda m: m.group(1) + gen(tool) + m.group(2), s)
    open(p, 'w').write(s)
    print('DESIGN.md tables regenerated')


if __name__ == '__main__':
    main()
