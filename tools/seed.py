#!/usr/bin/env python3
'''Confirm a seeded property-breaking change produced by an independent sub-agent and record it under
/verif/seeded/<id>/ (patch.diff, demo.py, notes.txt, meta.json).

  tools/seed.py <property> <source-dir> <seed-id> <worktree> [--checks C17,C16] [--needs "..."]

Confirmation (all in the given scratch worktree, never in /repo): the patch applies; the pinned tests give
the same result as without it; demo.py passes on the clean tree and fails with the patch.  Then the patch is
applied to /repo (git apply), the listed checks are run, and /repo is restored (git checkout -- .).'''
import argparse
import json
import os
import shutil
import subprocess
import sys

VERIF = os.path.dirname(os.path.dirname(os.path.abspath(__file__)))


def sh(cmd, cwd=None, timeout=3000):
    p = subprocess.run(cmd, shell=True, cwd=cwd, capture_output=True, text=True, timeout=timeout)
    return p.returncode, (p.stdout + p.stderr)


def tests(wt):
    rc, out = sh('/venv/bin/python -m pytest -q -p no:cacheprovider --timeout=900 tests 2>&1 | tail -1', cwd=wt)
    return out.strip()


def main():
    ap = argparse.ArgumentParser()
    ap.add_argument('prop')
    ap.add_argument('src')
    ap.add_argument('seed_id')
    ap.add_argument('worktree')
    ap.add_argument('--checks', default=None)
    ap.add_argument('--needs', default='')
    ap.add_argument('--recheck', action='store_true', help='seed already confirmed and recorded: only re-run the checks')
    a = ap.parse_args()
    if a.recheck:
        dst = os.path.join(VERIF, 'seeded', a.seed_id)
        meta = json.load(open(os.path.join(dst, 'meta.json')))
        checks = (a.checks or a.prop).split(',')
        rc, out = sh(f'git -C /repo apply {dst}/patch.diff')
        if rc != 0:
            print('patch does not apply to /repo:', out)
            return 1
        try:
            for pid in checks:
                rc, out = sh(f'./verif check {pid} --jobs 16', cwd=VERIF)
                lines = [l for l in out.splitlines() if l.startswith(('VIOLATION', 'KNOWN-FINDING', 'ENGINE-ERROR', 'UNDECIDED'))]
                meta['check_results'][pid] = {'exit': rc, 'lines': [l[:300] for l in lines][:12]}
                print(f'{pid}: exit {rc}')
        finally:
            sh('git -C /repo checkout -- .')
        meta['detected'] = any(r['exit'] == 1 for r in meta['check_results'].values())
        json.dump(meta, open(os.path.join(dst, 'meta.json'), 'w'), indent=1)
        print('rechecked', a.seed_id, 'detected =', meta['detected'])
        return 0
    patch = os.path.join(a.src, 'patch.diff')
    demo = os.path.join(a.src, 'demo.py')
    wt = a.worktree
    sh('git checkout -- .', cwd=wt)
    clean_tests = tests(wt)
    rc_clean, out_clean = sh(f'PYTHONPATH=. /venv/bin/python {demo}', cwd=wt)
    rc, out = sh(f'git apply {patch}', cwd=wt)
    if rc != 0:
        print('patch does not apply:', out)
        return 1
    patched_tests = tests(wt)
    rc_patched, out_patched = sh(f'PYTHONPATH=. /venv/bin/python {demo}', cwd=wt)
    sh('git checkout -- .', cwd=wt)
    ok = (clean_tests.split(' in ')[0] == patched_tests.split(' in ')[0]) and rc_clean == 0 and rc_patched != 0
    print(f'tests clean  : {clean_tests}\ntests patched: {patched_tests}\ndemo clean rc={rc_clean} patched rc={rc_patched}  confirmed={ok}')
    if not ok:
        return 1
    checks = (a.checks or a.prop).split(',')
    results = {}
    rc, out = sh(f'git -C /repo apply {patch}')
    if rc != 0:
        print('patch does not apply to /repo:', out)
        return 1
    try:
        for pid in checks:
            rc, out = sh(f'./verif check {pid} --jobs 16', cwd=VERIF)
            lines = [l for l in out.splitlines() if l.startswith(('VIOLATION', 'KNOWN-FINDING', 'ENGINE-ERROR', 'UNDECIDED'))]
            results[pid] = {'exit': rc, 'lines': [l[:300] for l in lines][:12]}
            print(f'{pid}: exit {rc}')
            for l in lines[:6]:
                print('   ', l[:200])
    finally:
        sh('git -C /repo checkout -- .')
    dst = os.path.join(VERIF, 'seeded', a.seed_id)
    os.makedirs(dst, exist_ok=True)
    shutil.copy(patch, os.path.join(dst, 'patch.diff'))
    shutil.copy(demo, os.path.join(dst, 'demo.py'))
    notes = os.path.join(a.src, 'notes.txt')
    if os.path.exists(notes):
        shutil.copy(notes, os.path.join(dst, 'notes.txt'))
    meta = {
        'property': a.prop, 'seed_id': a.seed_id, 'origin': 'independent sub-agent given only the property text and a scratch worktree',
        'needs_to_manifest': a.needs or (open(notes).read() if os.path.exists(notes) else ''),
        'confirmed': {'tests_clean': clean_tests, 'tests_patched': patched_tests,
                      'demo_exit_clean': rc_clean, 'demo_exit_patched': rc_patched,
                      'demo_output_patched': out_patched[-600:]},
        'ran': [f'git -C /repo apply seeded/{a.seed_id}/patch.diff; ./verif check {p} --jobs 16; git -C /repo checkout -- .' for p in checks],
        'check_results': results,
        'detected': any(r['exit'] == 1 for r in results.values()),
    }
    with open(os.path.join(dst, 'meta.json'), 'w') as f:
        json.dump(meta, f, indent=1)
    print('recorded', dst, 'detected =', meta['detected'])
    return 0


if __name__ == '__main__':
    sys.exit(main())
