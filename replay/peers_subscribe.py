'''Native replay / counterexample search for C19 on the real Peer and PeerManager classes.
  * Peer helpers: Peer objects built from generated JSON-like feature dictionaries (all JSON shapes for the
    port / pruning fields): ports must be absent or in 1..65535, is_public only for a valid hostname
    (not localhost) or a global, non-private address.
  * PeerManager: random peer sets (good/stale/never/bad x private/public IPv4/IPv6/hostname/onion, shared
    /16 buckets) x tor/non-tor requester: the advertised list must contain only recent, good, public peers
    or own recent identities, at most two per external bucket, onion peers bounded.
Request: {"obligation": name}.  Answer: {"reproduced": bool, ...}'''
import json
import random
import sys
import time

from electrumx.lib.peer import Peer
from electrumx.server import peers as P
from aiorpcx import is_valid_hostname
from ipaddress import ip_address

JSON_VALUES = [None, True, False, 0, 1, -1, 80, 65535, 65536, 70000, 10 ** 30, 1.5, float('inf'), float('nan'),
               '', '0', '50001', '65536', '-5', 'abc', '1e3', [], [1], {}, {'a': 1}]


def check_peer_helpers():
    hosts = ['example.com', 'localhost', '8.8.8.8', '10.0.0.1', '127.0.0.1', '224.0.0.1', '0.0.0.0', '::1',
             '2001:4860:4860::8888', 'bad host', 'x.onion', 'a..b', '']
    for host in hosts:
        for v in JSON_VALUES:
            for shape in range(4):
                hostinfo = [{'tcp_port': v, 'ssl_port': v}, v, {'tcp_port': v}, {}][shape]
                features = {'hosts': {host: hostinfo}, 'pruning': v, 'protocol_min': v, 'protocol_max': v,
                            'server_version': v, 'genesis_hash': v}
                try:
                    peer = Peer(host, features)
                    ports = (peer.tcp_port, peer.ssl_port)
                    pub = peer.is_public
                except BaseException as e:   # noqa
                    return {'reproduced': True, 'input': {'host': host, 'features': repr(features)},
                            'detail': f'Peer raised {e!r}'}
                for port in ports:
                    if port is not None and not (isinstance(port, int) and 0 < port < 65536):
                        return {'reproduced': True, 'input': {'host': host, 'features': repr(features)},
                                'detail': f'port {port!r} is neither absent nor in 1..65535'}
                if peer.pruning is not None and not peer.pruning > 0:
                    return {'reproduced': True, 'input': {'host': host, 'features': repr(features)},
                            'detail': f'pruning {peer.pruning!r}'}
                try:
                    ip = ip_address(host)
                except ValueError:
                    ip = None
                if pub:
                    ok = (ip is None and is_valid_hostname(host) and host != 'localhost') or \
                         (ip is not None and ip.is_global and not ip.is_private and not ip.is_multicast
                          and not ip.is_unspecified)
                    if not ok:
                        return {'reproduced': True, 'input': {'host': host}, 'detail': 'is_public for a non-public host'}
    return {'reproduced': False, 'detail': 'peer helpers agree with the statement on the generated feature dictionaries'}


def make_peer(rnd, now, n):
    kind = rnd.choice(['pub4', 'pub4', 'priv4', 'pub6', 'host', 'onion', 'onion'])
    if kind == 'pub4':
        ip = f'{rnd.choice([8, 9, 11])}.{rnd.choice([1, 2])}.{rnd.randrange(256)}.{rnd.randrange(1, 255)}'
        host = ip
    elif kind == 'priv4':
        ip = f'10.0.{rnd.randrange(256)}.{rnd.randrange(1, 255)}'
        host = ip
    elif kind == 'pub6':
        ip = f'2001:4860:{rnd.choice([1, 2])}::{rnd.randrange(1, 9999):x}'
        host = ip
    elif kind == 'host':
        host = f'h{n}.example.{rnd.choice(["com", "org"])}'
        ip = f'{rnd.choice([8, 9])}.1.{rnd.randrange(256)}.{rnd.randrange(1, 255)}'
    else:
        host = f'o{n}.onion'
        ip = None
    p = Peer(host, {'hosts': {host: {'tcp_port': 50001}}}, source='gen', ip_addr=ip)
    p.last_good = rnd.choice([now - 10, now - 3600, now - 4 * 3600, 0])
    p.last_try = rnd.choice([now - 5, now - 100, now - 5 * 3600])
    p.bad = rnd.random() < 0.2
    return p


def check_subscribe(rounds=400, seed=7):
    rnd = random.Random(seed)
    for r in range(rounds):
        now = time.time()
        pm = P.PeerManager.__new__(P.PeerManager)
        pm.peers = {make_peer(rnd, now, i) for i in range(rnd.randrange(0, 40))}
        mine = [make_peer(rnd, now, 1000 + i) for i in range(rnd.randrange(0, 3))]
        pm.myselves = mine
        is_tor = rnd.random() < 0.5
        by_tuple = {}
        for p in list(pm.peers) + mine:
            by_tuple.setdefault(repr(p.to_tuple()), []).append(p)
        result = pm.on_peers_subscribe(is_tor)
        cutoff = time.time() - P.STALE_SECS
        chosen = []
        for t in result:
            cands = by_tuple.get(repr(t))
            if not cands:
                return {'reproduced': True, 'input': {'round': r}, 'detail': f'unknown peer {t!r} advertised'}
            chosen.append(cands[0])
        buckets, onion = {}, 0
        for p in chosen:
            own = any(p is m for m in mine)
            if own:
                if not p.last_good > cutoff - 5:
                    return {'reproduced': True, 'input': {'round': r}, 'detail': f'stale own identity {p} advertised'}
                continue
            if not (p.last_good > cutoff - 5 and not p.bad and p.is_public):
                return {'reproduced': True, 'input': {'round': r, 'peer': str(p)},
                        'detail': f'peer {p} advertised: last_good={p.last_good - now:.0f}s bad={p.bad} public={p.is_public}'}
            if p.is_tor:
                onion += 1
            else:
                b = p.bucket_for_external_interface()
                buckets[b] = buckets.get(b, 0) + 1
                if buckets[b] > 2:
                    return {'reproduced': True, 'input': {'round': r}, 'detail': f'more than two peers of bucket {b}'}
        if onion > max(50 if is_tor else 10, len(chosen) // 4 + 1):
            return {'reproduced': True, 'input': {'round': r}, 'detail': f'{onion} onion peers of {len(chosen)} advertised'}
    return {'reproduced': False, 'detail': f'{rounds} random peer sets satisfy the statement'}


def main():
    req = json.loads(sys.stdin.read() or '{}')
    o = req.get('obligation') or ''
    if o.startswith('peer.Peer.'):
        res = check_peer_helpers()
    else:
        res = check_subscribe()
    print(json.dumps(res, default=repr))


if __name__ == '__main__':
    main()
