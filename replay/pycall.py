'''Native replay for module-level functions whose arguments are JSON values: converts the
solver's counter-model into Python values, calls the real function and reports which exception
class escapes.  Reproduced = the class named in the failed obligation (`...raises.<Class>`) escapes.'''
import importlib
import json
import math
import sys


def from_model(v):
    if isinstance(v, dict) and 'j' in v:
        k = v['j']
        if k == 'null':
            return None
        if k == 'bool':
            return bool(v['v'])
        if k == 'int':
            return int(v['v'])
        if k == 'float':
            c = v.get('class')
            if c == '+inf':
                return float('inf')
            if c == '-inf':
                return float('-inf')
            if c == 'nan':
                return float('nan')
            s = str(v.get('v', '0')).rstrip('?')
            if '/' in s:
                a, b = s.split('/')
                return float(a) / float(b)
            return float(s)
        if k == 'str':
            return v.get('v', '')
        if k == 'list':
            return []
        if k == 'dict':
            return {}
    return v


def main():
    req = json.loads(sys.stdin.read())
    unit = req.get('unit') or ''
    relpath, qual = unit.split(':')
    mod = importlib.import_module(relpath[:-3].replace('/', '.'))
    fn = getattr(mod, qual)
    want = (req.get('obligation') or '').rsplit('.', 1)[-1]
    model = req.get('concrete') or req.get('inputs') or {}
    candidates = [model]
    # the model names one member of a class of inputs; also try the obvious siblings of that class
    for k, v in list(model.items()):
        if isinstance(v, dict) and v.get('j') == 'float' and v.get('class') in ('+inf', '-inf'):
            for alt in ('+inf', '-inf'):
                candidates.append({**model, k: {'j': 'float', 'class': alt}})
    for cand_model in candidates:
        cand = {k: from_model(v) for k, v in cand_model.items()}
        try:
            fn(**cand)
            got = None
        except BaseException as e:   # noqa
            got = type(e).__name__
        if got == want:
            print(json.dumps({'reproduced': True, 'input': cand_model,
                              'detail': f'{qual}({", ".join(f"{k}={v!r}" for k, v in cand.items())}) raises {got}'}))
            return
    print(json.dumps({'reproduced': False, 'detail': f'{want} not raised for {candidates!r}'}))


if __name__ == '__main__':
    main()
