'''Native replay for SessionManager cache components (C10/C17): the real SessionManager (built without its
constructor) with a real pylru history cache.
  _notify_sessions: a notification for a touched script hash at the already-notified height (a reorganisation that
  ends at the same height) must evict that script hash from the history cache.
  limited_history: complete history below the limit, 'history too large' at/above it, identically from the cache.'''
import asyncio
import json
import sys
import types

import pylru
from aiorpcx import RPCError

from electrumx.server import session as S


def make_sm(limit_send=350000):
    sm = S.SessionManager.__new__(S.SessionManager)
    sm.env = types.SimpleNamespace(max_send=limit_send)
    sm._history_cache = pylru.lrucache(1000)
    sm._history_lookups = sm._history_hits = 0
    sm.sessions = {}
    sm.notified_height = 100
    sm.hsub_results = None
    sm.logger = types.SimpleNamespace(info=lambda *a: None)

    async def raw_header(h):
        return bytes(80)
    sm.raw_header = raw_header
    sm.db = types.SimpleNamespace(state=types.SimpleNamespace(height=100))
    return sm


def check_notify():
    for same_height in (True, False):
        sm = make_sm()
        x, y = b'\x01' * 11, b'\x02' * 11
        sm._history_cache[x] = [(b'h' * 32, 99)]
        sm._history_cache[y] = [(b'g' * 32, 98)]
        height = 100 if same_height else 101
        sm.db.state.height = height
        asyncio.run(sm._notify_sessions(height, {x}))
        if x in sm._history_cache:
            return {'reproduced': True,
                    'input': {'notified_height': 100, 'height': height, 'touched': ['01' * 11], 'cached': ['01' * 11, '02' * 11]},
                    'detail': 'the touched script hash is still in the history cache after the notification '
                              f'({"same" if same_height else "new"} height): later queries and statuses use the stale history'}
        if y not in sm._history_cache:
            return {'reproduced': True, 'input': {'height': height}, 'detail': 'an untouched script hash was evicted'}
    return {'reproduced': False, 'detail': 'touched script hashes are evicted at a new and at the same height'}


def check_every_session_notified():
    '''every connected session is handed the notification (same touched set, same height_changed flag) - also sessions
    with no script-hash subscription (they may subscribe to headers only) and sessions that will find nothing to send'''
    class FakeSession:
        def __init__(self, subs):
            self.subs, self.calls = subs, []

        def sub_count(self):
            return self.subs

        async def notify(self, touched, height_changed):
            self.calls.append((set(touched), height_changed))

    for height in (100, 101):
        sm = make_sm()
        sessions = [FakeSession(0), FakeSession(3), FakeSession(0), FakeSession(1)]
        sm.sessions = {s: None for s in sessions}
        sm.db.state.height = height
        touched = {b'\x01' * 11}
        asyncio.run(sm._notify_sessions(height, touched))
        for i, s in enumerate(sessions):
            if s.calls != [(touched, height != 100)]:
                return {'reproduced': True, 'input': {'sessions_script_hash_subscriptions': [x.subs for x in sessions], 'height': height,
                                                      'notified_height': 100},
                        'detail': f'session {i} ({s.subs} script-hash subscriptions) got {len(s.calls)} notify() calls '
                                  f'{s.calls!r:.80}, expected one with the touched set and height_changed={height != 100}: a '
                                  'header-only subscriber never learns the new tip'}
    return None


def check_limited_history():
    for n in (0, 1, 3533, 3534, 3535, 3536, 5000):
        sm = make_sm()
        limit = sm.env.max_send // 99
        full = [(bytes([i % 256]) * 32, i) for i in range(n)]

        async def limited_history(hashX, *, limit=1000):
            return full[:limit]
        sm.db.limited_history = limited_history
        for attempt in range(3):            # the second and third come from the cache
            try:
                got, _cost = asyncio.run(sm.limited_history(b'\x03' * 11))
                if n >= limit or got != full:
                    return {'reproduced': True, 'input': {'history_entries': n, 'limit': limit, 'attempt': attempt + 1},
                            'detail': f'returned {len(got)} entries for a history of {n} (limit {limit})'}
            except RPCError:
                if n < limit:
                    return {'reproduced': True, 'input': {'history_entries': n, 'limit': limit, 'attempt': attempt + 1},
                            'detail': 'history too large raised below the limit'}
    return {'reproduced': False, 'detail': 'limited_history consistent for lengths around the limit, from DB and cache'}


def main():
    req = json.loads(sys.stdin.read() or '{}')
    o = req.get('obligation') or ''
    res = check_limited_history() if 'limited_history' in o else (check_every_session_notified() or check_notify())
    print(json.dumps(res, default=repr))


if __name__ == '__main__':
    main()
