'''Per-scenario watchdog for the native drivers: a scenario that does not finish within `seconds` (hundreds of times its
normal duration) is reported as a failure of that scenario ("hang"), not left to the driver-level timeout (which only
yields "no verdict").  SIGALRM interrupts the main thread, also inside an asyncio loop.'''
import signal


class ScenarioHang(BaseException):
    pass


def _raise(signum, frame):
    raise ScenarioHang()


def guarded(fn, *args, seconds=120):
    old = signal.signal(signal.SIGALRM, _raise)
    signal.alarm(seconds)
    try:
        return fn(*args)
    finally:
        signal.alarm(0)
        signal.signal(signal.SIGALRM, old)
