'''Native replay for C16 server.add_peer: the real PeerManager.on_add_peer is called (object built
without its network-facing constructor) with feature dictionaries announcing hosts of the class the
counter-model points at: strings that cannot be IDNA-encoded.  Reproduced = an exception other than
the ones the protocol layer turns into error replies escapes.'''
import asyncio
import json
import logging
import sys

from aiorpcx import NetAddress
from electrumx.server.peers import PeerManager


class Env:
    PD_ON = 2
    peer_discovery = 2


def make_pm():
    pm = PeerManager.__new__(PeerManager)
    pm.env = Env()
    pm.logger = logging.getLogger('replay')
    pm.recent_peer_adds = {}
    pm.permit_onion_peer_time = 0
    pm.peers = set()
    pm.proxy = None
    return pm


async def try_host(host):
    pm = make_pm()
    features = {'hosts': {host: {'tcp_port': 50001}}}
    try:
        await pm.on_add_peer(features, NetAddress('8.8.8.8', 50001))
        return None
    except BaseException as e:   # noqa
        return type(e).__name__, repr(e)


def main():
    req = json.loads(sys.stdin.read() or '{}')
    want = (req.get('obligation') or '').rsplit('.', 1)[-1]
    hosts = req.get('concrete') or ['a..b', '.example.com', 'x' * 64 + '.com', '\udcff.example.com', 'exa mple..org']
    for h in hosts:
        got = asyncio.run(try_host(h))
        if got and (got[0] == want or (want == 'UnicodeError' and got[0].startswith('Unicode'))):
            print(json.dumps({'reproduced': True, 'input': [h],
                              'detail': f"server.add_peer with features {{'hosts': {{{h!r}: ...}}}} raises {got[1]}"}))
            return
    print(json.dumps({'reproduced': False, 'detail': f'no {want} for hosts {hosts!r}'}))


if __name__ == '__main__':
    main()
