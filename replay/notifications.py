'''Native replay / counterexample search for C20 on the real Notifications class.

Runs under /venv/bin/python with PYTHONPATH=/repo.  Exhaustively enumerates call sequences
(start / on_mempool / on_block, heights rising, repeating and falling) up to a bound and
monitors the ghost state of the contract (contracts/c20_notifications.py) on the real object.
Request (stdin JSON): {"obligation": name, ...}.  Answer: {"reproduced": bool, "input": sequence, ...}
'''
import asyncio
import itertools
import json
import sys

from electrumx.server.controller import Notifications


def kind_of(obligation):
    o = obligation or ''
    if o.endswith('engine-error'):
        return 'any'
    if 'agreed' in o:
        return 'agreed'
    if 'complete' in o:
        return 'complete'
    if '_maybe_notify' in o:
        return 'lost-on-notify'     # a pending set disappears while a notification is issued
    if 'on_mempool' in o or 'on_block' in o:
        return 'lost-on-report'     # a pending set disappears when a report is stored
    return 'lost'


class Monitor:
    def __init__(self):
        self.n = Notifications()
        self.mp_seen, self.bp_seen, self.given, self.sent = set(), set(), set(), set()
        self.last_mp = self.last_bp = None
        self.violations = []
        # heights at which the mempool has reported and that no notification at that height or above has consumed yet: the
        # monitor's OWN record (not read from the object), so a notification that throws such a record away is noticed
        self.mp_fresh = set()

        async def notify(height, touched):
            if height not in self.mp_seen or height not in self.bp_seen:
                self.violations.append(('agreed', f'notify({height}) without both reports'))
            self.sent |= set(touched)
            self.mp_fresh = {x for x in self.mp_fresh if x > height}
        self._notify = notify

    def pending(self):
        out = set()
        for d in (self.n._touched_mp, self.n._touched_bp):
            for s in d.values():
                out |= s
        return out

    def keys_above(self, h):
        return any(k > h for k in list(self.n._touched_mp) + list(self.n._touched_bp))

    async def step(self, op, h, t):
        fell = self.keys_above(h)
        sent_before = set(self.sent)
        mp_pending_at_h = h in self.mp_fresh
        if op == 'start':
            self.bp_seen.add(h)
            self.mp_seen.add(h)
            self.last_bp = h
            await self.n.start(h, self._notify)
        elif op == 'on_mempool':
            self.mp_seen.add(h)
            self.given |= t
            self.last_mp = h
            self.mp_fresh.add(h)
            await self.n.on_mempool(set(t), h)
        else:
            self.bp_seen.add(h)
            self.given |= t
            self.last_bp = h
            await self.n.on_block(set(t), h)
        if not self.given <= self.sent | self.pending():
            what = f'{sorted(self.given - self.sent - self.pending())} neither sent nor pending'
            self.violations.append(('lost', what))
            self.violations.append(('lost-on-notify' if self.sent != sent_before else 'lost-on-report', what))
        second_report = (op == 'on_mempool' and self.last_bp == h) or (op == 'on_block' and mp_pending_at_h)
        if second_report and not self.given <= self.sent:
            self.violations.append(('complete-after-fall' if fell else 'complete',
                                    f'{sorted(self.given - self.sent)} not notified although both sources reported {h}'))


async def run(seq):
    m = Monitor()
    # before start() the real class notifies through its no-op default; the monitor observes
    # through the installed callback only, so install it first without counting a start-up
    m.n.notify = m._notify
    for i, (op, h) in enumerate(seq):
        await m.step(op, h, {f'x{i}'})
        if m.violations:
            return m.violations, i
    return [], None


def search(kind, max_len=5, heights=(5, 6, 7)):
    ops = [('on_mempool', h) for h in heights] + [('on_block', h) for h in heights]
    want = {kind} if kind != 'complete' else {'complete', 'complete-after-fall'}
    if kind == 'any':
        want = {'agreed', 'lost', 'complete'}
    found = {}
    n = 0
    for length in range(1, max_len + 1):
        for body in itertools.product(ops, repeat=length - 1):
            for sh in heights:
                for pos in range(length):
                    seq = list(body[:pos]) + [('start', sh)] + list(body[pos:])
                    n += 1
                    v, i = asyncio.run(run(seq))
                    for k, what in v:
                        if k in want and k not in found:
                            found[k] = (seq[:i + 1], what)
        if kind in found or (kind == 'complete' and 'complete' in found) or (kind == 'any' and found):
            break
    return found, n


def main():
    req = json.loads(sys.stdin.read() or '{}')
    if req.get('concrete'):
        seq = [tuple(x) for x in req['concrete']]
        v, i = asyncio.run(run(seq))
        print(json.dumps({'reproduced': bool(v), 'input': seq, 'detail': v}))
        return
    kind = kind_of(req.get('obligation'))
    found, n = search(kind)
    if kind == 'complete' and 'complete' not in found and 'complete-after-fall' in found:
        seq, what = found['complete-after-fall']
        print(json.dumps({'reproduced': True, 'class': 'KF-C20-1', 'input': seq, 'detail': what, 'sequences_tried': n}))
    elif kind in found or (kind == 'any' and found):
        seq, what = found[kind] if kind in found else sorted(found.items())[0][1]
        print(json.dumps({'reproduced': True, 'input': seq, 'detail': what, 'sequences_tried': n}))
    else:
        print(json.dumps({'reproduced': False, 'detail': f'no {kind} violation in {n} call sequences', 'sequences_tried': n}))


if __name__ == '__main__':
    main()
