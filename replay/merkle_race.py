'''Native replay / bounded stand-in for the header-proof part of C11: the real MerkleCache with a source that is
reorganised while requests are in flight.

The source (block hashes by height) suspends inside source_func; while a branch_and_root / _extend_to call is suspended
a reorganisation replaces the chain suffix and calls truncate (what DB.backup_fs does), then the call resumes.  After
everything has settled every (length, index) query must agree with a from-scratch computation over the CURRENT chain.'''
import asyncio
import hashlib
import json
import random
import sys

from electrumx.lib.merkle import Merkle, MerkleCache


def H(x):
    return hashlib.sha256(hashlib.sha256(x).digest()).digest()


def root_branch(hashes, index):
    branch = []
    hs = list(hashes)
    while len(hs) > 1:
        if len(hs) & 1:
            hs.append(hs[-1])
        branch.append(hs[index ^ 1])
        index >>= 1
        hs = [H(hs[i] + hs[i + 1]) for i in range(0, len(hs), 2)]
    return branch, hs[0]


async def scenario(seed):
    rnd = random.Random(seed)
    chain = [hashlib.sha256(b'a%d' % i).digest() for i in range(rnd.randrange(20, 70))]
    gate = {'armed': False, 'event': asyncio.Event(), 'entered': asyncio.Event()}

    async def source(start, count):
        snapshot = chain[start:start + count]
        if gate['armed']:
            gate['armed'] = False
            gate['entered'].set()
            await gate['event'].wait()
        return snapshot

    cache = MerkleCache(Merkle(), source)
    init_len = rnd.randrange(1, len(chain) - 5)
    await cache.initialize(init_len)
    # a request that has to extend the cache is in flight ...
    target = rnd.randrange(init_len + 1, len(chain) + 1)
    gate['armed'] = True
    task = asyncio.ensure_future(cache.branch_and_root(target, rnd.randrange(target)))
    await gate['entered'].wait()
    # ... while the chain is reorganised below the part being read
    fork = rnd.randrange(1, target)
    for i in range(fork, len(chain)):
        chain[i] = hashlib.sha256(b'b%d-%d' % (seed, i)).digest()
    cache.truncate(fork)            # DB.backup_fs: header_mc.truncate(height + 1)
    gate['event'].set()
    try:
        await task                  # the in-flight answer itself may be refused or be for the old chain
    except Exception:   # noqa
        pass
    desc = {'seed': seed, 'chain': len(chain), 'initialized': init_len, 'in_flight_length': target, 'fork_at': fork}
    # quiescent: every query must be right for the current chain
    for _ in range(30):
        length = rnd.randrange(1, len(chain) + 1)
        index = rnd.randrange(length)
        want = root_branch(chain[:length], index)
        try:
            got = await cache.branch_and_root(length, index)
        except Exception as e:   # noqa
            return desc, f'after the reorg settled, branch_and_root({length}, {index}) raises {e!r}'
        if (list(got[0]), got[1]) != (want[0], want[1]):
            return desc, (f'after the reorg settled, the header proof for (length {length}, index {index}) does not fold to the '
                          f'merkle root of the current chain (cache holds hashes of the orphaned branch)')
    return desc, None


def main():
    req = json.loads(sys.stdin.read() or '{}')
    rounds = int(req.get('rounds') or 40)
    seed0 = int(req.get('seed') or 0) * 1009
    for i in range(rounds):
        desc, bad = asyncio.run(scenario(seed0 + i))
        if bad:
            print(json.dumps({'reproduced': True, 'class': 'KF-C11-1', 'input': desc, 'detail': bad, 'cases': i + 1}))
            return
    print(json.dumps({'reproduced': False, 'detail': f'{rounds} reorg-during-request scenarios agree with the current chain', 'cases': rounds}))


if __name__ == '__main__':
    main()
