'''Native replay for C16/C17 handler obligations: a real ElectrumX session object (created without
its transport constructor) with stub collaborators is handed the JSON argument values of the solver's
counter-model.  Reproduced = the exception class named in the failed obligation escapes the handler.'''
import asyncio
import json
import sys
import types

from aiorpcx import RPCError

from electrumx.server import session as S
import os
sys.path.insert(0, os.path.dirname(os.path.abspath(__file__)))
from pycall import from_model


class Stub:
    '''Collaborator whose every awaited method returns a benign value.'''

    def __init__(self, **kw):
        self.__dict__.update(kw)

    def __getattr__(self, name):
        async def f(*a, **k):
            return self._default
        return f
    _default = None


def make_session():
    s = S.ElectrumX.__new__(S.ElectrumX)
    env = types.SimpleNamespace(max_send=1000000, donation_address='', drop_client=None, coin=None)
    state = types.SimpleNamespace(height=100)
    header = bytes(80)

    async def read_headers(start, count):
        n = max(0, min(count, state.height + 1 - start))
        return header * n, n

    async def header_branch_and_root(length, height):
        return [bytes(32)], bytes(32)

    db = types.SimpleNamespace(state=state, read_headers=read_headers, header_branch_and_root=header_branch_and_root)

    async def raw_header(height):
        if height > state.height:
            raise RPCError(1, 'out of range')
        return header

    async def tx_hashes_at_blockheight(height):
        if height > state.height:
            raise RPCError(1, 'db error')
        return [bytes([i]) * 32 for i in range(3)], 0.1

    async def merkle_branch_for_tx_pos(height, tx_pos):
        hashes, _ = await tx_hashes_at_blockheight(height)
        hashes[tx_pos]
        return [], 'aa' * 32, 0.1

    async def merkle_branch_for_tx_hash(height, tx_hash):
        return [], 0, 0.1

    async def limited_history(hashX):
        return [], 0.1

    async def daemon_request(method, *args):
        return 'result'

    async def tsc(height, tx_hash, a, b):
        return {'index': 0, 'txid_or_tx': 'x', 'target': 'y', 'nodes': []}, 0.1

    async def broadcast_transaction(raw_tx):
        return 'aa' * 32

    sm = types.SimpleNamespace(env=env, db=db, raw_header=raw_header, hsub_results={'hex': '00', 'height': 100},
                               tx_hashes_at_blockheight=tx_hashes_at_blockheight,
                               merkle_branch_for_tx_pos=merkle_branch_for_tx_pos,
                               merkle_branch_for_tx_hash=merkle_branch_for_tx_hash,
                               limited_history=limited_history, daemon_request=daemon_request,
                               tsc_merkle_proof_for_tx_hash=tsc, broadcast_transaction=broadcast_transaction)
    mempool = Stub()
    mempool._default = []

    async def balance_delta(hashX):
        return 0
    mempool.balance_delta = balance_delta

    async def potential_spends(hashX):
        return set()
    mempool.potential_spends = potential_spends

    async def all_utxos(hashX):
        return []
    db.all_utxos = all_utxos

    async def on_add_peer(features, source):
        return False
    pm = types.SimpleNamespace(on_add_peer=on_add_peer, on_peers_subscribe=lambda is_tor: [],
                               proxy_address=lambda: None)
    s.session_mgr, s.db, s.mempool, s.peer_mgr, s.env = sm, db, mempool, pm, env
    s.hashX_subs, s.mempool_statuses, s.subscribe_headers = {}, {}, False
    s.sv_seen, s.is_peer, s.client, s.txs_sent = False, False, 'unknown', 0
    s.daemon_request = daemon_request
    s.bump_cost = lambda delta: None
    s.remote_address = lambda: None
    s.logger = types.SimpleNamespace(info=lambda *a: None, warning=lambda *a: None, error=lambda *a: None)
    return s


def main():
    req = json.loads(sys.stdin.read())
    qual = (req.get('unit') or '').split(':')[1]          # ElectrumX.block_headers
    meth = qual.split('.')[1]
    want = (req.get('obligation') or '').rsplit('.', 1)[-1]
    model = req.get('concrete') or {k: v for k, v in (req.get('inputs') or {}).items() if k != 'self'}
    args = {k: from_model(v) for k, v in model.items()}
    # arguments the model leaves arbitrary although a validator accepted them: use a well-formed value
    repaired = dict(args)
    for k in ('tx_hash', 'scripthash'):
        if k in repaired and not (isinstance(repaired[k], str) and len(repaired[k]) == 64):
            repaired[k] = 'ab' * 32
    if 'raw_tx' in repaired and not isinstance(repaired['raw_tx'], str):
        repaired['raw_tx'] = 'ab'
    s = make_session()
    if '.post.' in (req.get('obligation') or '') and meth == 'block_headers':
        # functional postcondition of blockchain.block.headers, evaluated on the real handler for the
        # model's arguments and for the boundary triples around the cap and the chain end
        s.db.state.height = 5000
        cands = [args] + [{'start_height': st, 'count': c, 'cp_height': 0}
                          for st in (0, 1, 2984, 2985, 4999, 5000, 5001) for c in (0, 1, 2015, 2016, 2017, 4000)]
        for a in cands:
            try:
                r = asyncio.run(s.block_headers(**a))
            except RPCError:
                continue
            except BaseException as e:   # noqa
                print(json.dumps({'reproduced': True, 'input': a, 'detail': f'raises {e!r}'}, default=repr))
                return
            want = max(0, min(int(a['count']), 2016, 5000 + 1 - int(a['start_height'])))
            if r['count'] > 2016 or r['count'] != want or len(r['hex']) != 160 * r['count'] or r['max'] != 2016:
                print(json.dumps({'reproduced': True, 'input': a,
                                  'detail': f"block_headers returned count={r['count']} max={r['max']} "
                                            f"hexlen={len(r['hex'])}; the statement gives count={want}"}, default=repr))
                return
        print(json.dumps({'reproduced': False, 'detail': f'{len(cands)} argument triples agree with the formula'}))
        return
    try:
        asyncio.run(getattr(s, meth)(**args))
        got = None
    except BaseException as e:   # noqa
        got = type(e).__name__
    if got != want and repaired != args:
        try:
            asyncio.run(getattr(make_session(), meth)(**repaired))
            got2 = None
        except BaseException as e:   # noqa
            got2 = type(e).__name__
        if got2 == want or ('.type.' in (req.get('obligation') or '') and got2 not in ('RPCError', None)):
            got, args = got2, repaired
            model = {k: (model.get(k) if repaired[k] == from_model(model.get(k)) else {'j': 'str', 'v': repaired[k]})
                     for k in repaired}
    protocol = ('RPCError', 'ReplyAndDisconnect', 'ExcessiveSessionCostError', None)
    if '.type.' in (req.get('obligation') or '') and got not in protocol:
        want = got      # an argument of the wrong Python type reached a callee: any internal exception reproduces it
    if got == want:
        print(json.dumps({'reproduced': True, 'input': model,
                          'detail': f'{meth}({", ".join(f"{k}={v!r}" for k, v in args.items())}) raises {got}'}))
    else:
        print(json.dumps({'reproduced': False, 'detail': f'{meth}({args!r}) gave {got}, obligation names {want}'}))


if __name__ == '__main__':
    sys.path.insert(0, __file__.rsplit('/', 1)[0])
    main()
