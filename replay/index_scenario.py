'''Native index scenarios on the real BlockProcessor / DB / History / LevelDB (bounded stand-in and replay
driver for C01-C05, C14, C15).  Runs under /venv/bin/python with PYTHONPATH=<repo>.

A generated regtest-style chain (same-block spend chains, duplicate scripts, OP_RETURN / OP_FALSE OP_RETURN
outputs on both sides of a lowered activation height, zero values, empty scripts) is indexed with a random
flush schedule (history-only / full), optionally reorganised, crashed at a chosen durable write and reopened,
compacted, and every observable is compared with an independent oracle computed from the chain alone.

Request (stdin JSON): {"mode": "c01"|"c03"|"c04"|"c05"|"c14"|"c15", "seed": int, "rounds": int}
Answer: {"reproduced": bool, "input": scenario description, "detail": ..., "cases": n}
'''
import array
import asyncio
from _watchdog import guarded, ScenarioHang
import hashlib
import json
import logging
import os
import random
import shutil
import struct
import sys
import tempfile

logging.disable(logging.CRITICAL)

from electrumx.lib.coins import BitcoinSVRegtest            # noqa: E402
from electrumx.lib.hash import HASHX_LEN                    # noqa: E402
from electrumx.server.env import Env                        # noqa: E402
from electrumx.server.db import DB                          # noqa: E402
from electrumx.server import block_processor as BPm        # noqa: E402
from electrumx.server.block_processor import BlockProcessor, OnDiskBlock, ChainError   # noqa: E402

ACT = 6       # lowered GENESIS_ACTIVATION so both OP_RETURN rules are exercised


class Coin(BitcoinSVRegtest):
    GENESIS_ACTIVATION = ACT


def dsha(b):
    return hashlib.sha256(hashlib.sha256(b).digest()).digest()


def varint(n):
    if n < 253:
        return bytes([n])
    if n < 65536:
        return b'\xfd' + struct.pack('<H', n)
    if n < 4294967296:
        return b'\xfe' + struct.pack('<I', n)
    return b'\xff' + struct.pack('<Q', n)


def ser_tx(tx):
    out = struct.pack('<i', 1) + varint(len(tx['ins']))
    for ph, pi in tx['ins']:
        out += ph + struct.pack('<I', pi) + varint(2) + b'\x51\x51' + struct.pack('<I', 0xffffffff)
    out += varint(len(tx['outs']))
    for value, script in tx['outs']:
        out += struct.pack('<q', value) + varint(len(script)) + script
    return out + struct.pack('<I', 0)


def unspendable(height, script):
    if script[:2] == b'\x00\x6a':
        return True
    return height < ACT and script[:1] == b'\x6a'


def hashX_of(script):
    return hashlib.sha256(script).digest()[:HASHX_LEN]


class ChainGen:
    '''Generates blocks on top of any prefix; keeps nothing but the blocks.'''

    def __init__(self, rnd):
        self.rnd = rnd
        self.scripts = [b'\x76\xa9\x14' + bytes([i]) * 20 + b'\x88\xac' for i in range(6)]

    def script(self):
        r = self.rnd.random()
        if r < 0.08:
            return b'\x6a\x04data'
        if r < 0.16:
            return b'\x00\x6a\x04data'
        if r < 0.19:
            return b''
        return self.rnd.choice(self.scripts)

    def make_block(self, prev_blocks, salt=0, max_txs=5):
        height = len(prev_blocks)
        prev_hash = prev_blocks[-1]['hash'] if prev_blocks else bytes(32)
        spendable = spendable_outputs(prev_blocks)
        txs = [{'ins': [(bytes(32), 0xffffffff)],
                'outs': [(50 * 10 ** 8, self.script()), (0, self.script())][:self.rnd.choice([1, 2])]}]
        txs[0]['outs'].append((height * 1000 + salt, self.rnd.choice(self.scripts)))    # make the coinbase unique
        if self.rnd.random() < 0.2:
            # a transaction that touches no script hash at all (every output unspendable on both sides of the activation
            # height): its tx number must still be consumed
            txs[0]['outs'] = [(0, b'\x00\x6a\x08' + struct.pack('<II', height, salt))]
        for _ in range(self.rnd.randrange(0, max_txs)):
            ins = []
            for _ in range(self.rnd.randrange(1, 4)):
                if not spendable:
                    break
                op = self.rnd.choice(sorted(spendable))
                spendable.discard(op)
                ins.append(op)
            if not ins:
                break
            tx = {'ins': ins, 'outs': [(self.rnd.choice([0, 1, 546, 10 ** 6]), self.script())
                                       for _ in range(self.rnd.randrange(1, 4))]}
            txs.append(tx)
            h = dsha(ser_tx(tx))
            for i, (v, s) in enumerate(tx['outs']):            # same-block spend chains
                if not unspendable(height, s):
                    spendable.add((h, i))
        for tx in txs:
            tx['raw'] = ser_tx(tx)
            tx['hash'] = dsha(tx['raw'])
        merkle = dsha(b''.join(t['hash'] for t in txs))
        header = struct.pack('<i', 1) + prev_hash + merkle + struct.pack('<III', height, 0, salt)
        raw = header + varint(len(txs)) + b''.join(t['raw'] for t in txs)
        return {'height': height, 'header': header, 'hash': dsha(header), 'txs': txs, 'raw': raw}


def spendable_outputs(blocks):
    utxos = set()
    for b in blocks:
        for tx in b['txs']:
            for ph, pi in tx['ins']:
                utxos.discard((ph, pi))
            for i, (v, s) in enumerate(tx['outs']):
                if not unspendable(b['height'], s):
                    utxos.add((tx['hash'], i))
    return utxos


def oracle(blocks):
    '''The clean index of a chain, computed from the definition.'''
    utxos, hist, tx_num = {}, {}, 0
    tx_hashes, size = [], 0
    for b in blocks:
        hs = []
        for tx in b['txs']:
            touched = []
            for ph, pi in tx['ins']:
                if ph == bytes(32) and pi == 0xffffffff:
                    continue
                hx, v, _h, _n = utxos.pop((ph, pi))
                touched.append(hx)
            for i, (v, s) in enumerate(tx['outs']):
                if unspendable(b['height'], s):
                    continue
                hx = hashX_of(s)
                utxos[(tx['hash'], i)] = (hx, v, b['height'], tx_num)
                touched.append(hx)
            for hx in set(touched):
                hist.setdefault(hx, []).append(tx_num)
            hs.append(tx['hash'])
            tx_num += 1
        tx_hashes.append(hs)
        size += len(b['raw'])
    return {'utxos': utxos, 'hist': hist, 'tx_count': tx_num, 'tx_hashes': tx_hashes, 'chain_size': size,
            'height': len(blocks) - 1, 'tip': blocks[-1]['hash'] if blocks else bytes(32)}


def affected_hashXs(blocks, depth):
    '''script hashes paid to or spent from by the last `depth` blocks'''
    utxos, out = {}, set()
    first = len(blocks) - depth
    for b in blocks:
        for tx in b['txs']:
            for ph, pi in tx['ins']:
                if ph == bytes(32) and pi == 0xffffffff:
                    continue
                hx = utxos.pop((ph, pi))
                if b['height'] >= first:
                    out.add(hx)
            for i, (v, s) in enumerate(tx['outs']):
                if unspendable(b['height'], s):
                    continue
                utxos[(tx['hash'], i)] = hashX_of(s)
                if b['height'] >= first:
                    out.add(hashX_of(s))
    return out


class Crash(Exception):
    pass


class Daemon:
    def __init__(self):
        self.h = 10 ** 9

    def cached_height(self):
        return self.h


class World:
    def __init__(self, reorg_limit=200, chunk_size=None):
        self.dir = tempfile.mkdtemp(prefix='vfidx')
        self.cwd = os.getcwd()
        os.environ.update({'DB_DIRECTORY': self.dir, 'DAEMON_URL': 'http://u:p@localhost:1/', 'COIN': 'BitcoinSV',
                           'NET': 'regtest', 'REORG_LIMIT': str(reorg_limit), 'DB_ENGINE': 'leveldb',
                           'PEER_DISCOVERY': 'off', 'SERVICES': ''})
        self.env = Env(Coin)
        self.daemon = Daemon()
        self.db = self.bp = None
        if chunk_size:
            OnDiskBlock.chunk_size = chunk_size
        else:
            OnDiskBlock.chunk_size = 25_000_000

    def open(self, compacting=False):
        self.db = DB(self.env)
        loop = asyncio.new_event_loop()
        try:
            if compacting:
                state = loop.run_until_complete(self.db.open_for_compacting())
            else:
                state = loop.run_until_complete(self.db.open_for_sync())
        finally:
            loop.close()
        self.bp = BlockProcessor(self.env, self.db, self.daemon, None)
        self.bp.state = OnDiskBlock.state = state.copy()
        os.makedirs('meta/blocks', exist_ok=True)
        return state

    def close(self):
        if self.db is not None:
            try:
                if self.db.utxo_db:
                    self.db.utxo_db.close()
                self.db.history.close_db()
            except Exception:     # noqa
                pass
        self.db = self.bp = None

    def destroy(self):
        self.close()
        os.chdir(self.cwd)
        shutil.rmtree(self.dir, ignore_errors=True)

    def odb(self, block):
        hex_hash = bytes(reversed(block['hash'])).hex()
        name = OnDiskBlock.filename(hex_hash, block['height'])
        with open(name, 'wb') as f:
            f.write(block['raw'])
        return OnDiskBlock(hex_hash, block['height'], len(block['raw']))

    def advance(self, block):
        self.bp.advance_block(self.odb(block))
        if self.bp.reorg_count == -1:
            self.bp.reorg_count = None
            return False
        return True

    def flush(self, utxos=True):
        self.db.flush_dbs(self.bp.flush_data(), utxos, 0)

    def backup(self, block):
        self.bp.backup_block(self.odb(block))

    def run(self, coro, timeout=15):
        '''Queries retry forever when they meet a tx number beyond the chain: a query that has not returned after 15 s
        (normal: milliseconds) is reported as never returning.'''
        loop = asyncio.new_event_loop()
        try:
            return loop.run_until_complete(asyncio.wait_for(coro, timeout))
        finally:
            loop.close()

    def compare(self, blocks, what=''):
        '''All observables of the (fully flushed) index against the clean index of `blocks`.'''
        try:
            return self._compare(blocks, what)
        except asyncio.TimeoutError:
            return (f'{what}a history / UTXO query does not return (it retries forever: the index holds a tx number '
                    f'beyond the chain it reports)')

    def _compare(self, blocks, what=''):
        o = oracle(blocks)
        st = self.db.state
        for name, want in (('height', o['height']), ('tx_count', o['tx_count']), ('tip', o['tip']),
                           ('chain_size', o['chain_size']), ('utxo_count', len(o['utxos']))):
            if getattr(st, name) != want:
                return f'{what}state.{name} = {getattr(st, name)!r}, clean index has {want!r}'
        hxs = set(o['hist']) | {hashX_of(s) for s in (b'', b'\x6a\x04data', b'\x00\x6a\x04data')}
        by_hx = {}
        for (h, i), (hx, v, ht, n) in o['utxos'].items():
            by_hx.setdefault(hx, set()).add((h, i, v, ht, n))
        for hx in sorted(hxs):
            got = self.run(self.db.all_utxos(hx))
            gs = sorted((u.tx_hash, u.tx_pos, u.value, u.height, u.tx_num) for u in got)
            if gs != sorted(by_hx.get(hx, ())):
                return f'{what}UTXOs of {hx.hex()} differ: {len(gs)} reported, {len(by_hx.get(hx, ()))} in the clean index'
            full = []
            for n in o['hist'].get(hx, []):
                full.append(n)
            heights = []
            for limit in (None, 1, 2, len(full), len(full) + 1):
                got = self.run(self.db.limited_history(hx, limit=limit))
                want = [(self.txhash_of(o, n), self.height_of(o, n)) for n in (full if limit is None else full[:limit])]
                if got != want:
                    return (f'{what}history of {hx.hex()} (limit {limit}) has {len(got)} entries '
                            f'{[h for _, h in got][:8]}, clean index has {len(want)} {[h for _, h in want][:8]}')
        # the mempool's view of the confirmed UTXO set: every unspent outpoint resolves to (hashX, value) - zero values
        # included -, spent or unknown ones to None
        unspent = sorted(o['utxos'])
        spent = [(tx['hash'], i) for b in blocks for tx in b['txs'] for i in range(len(tx['outs']))
                 if (tx['hash'], i) not in o['utxos']][:40]
        prevouts = unspent + spent + [(bytes([7]) * 32, 0)]
        got = self.run(self.db.lookup_utxos(prevouts))
        want = [(o['utxos'][p][0], o['utxos'][p][1]) for p in unspent] + [None] * (len(spent) + 1)
        for p, g, w_ in zip(prevouts, got, want):
            if g != w_:
                return (f'{what}lookup_utxos({p[0].hex()[:16]}..:{p[1]}) returned {g!r}, the clean index has '
                        f'{"an unspent output " + repr(w_) if w_ else "no such unspent output"}')
        for h in range(o['height'] + 1):
            if self.db.fs_tx_hashes_at_blockheight(h) != o['tx_hashes'][h]:
                return f'{what}tx hashes of block {h} differ'
        headers, n = self.run(self.db.read_headers(0, o['height'] + 5))
        if n != o['height'] + 1 or headers != b''.join(b['header'] for b in blocks):
            return f'{what}headers differ'
        # prefix-collision candidates and no stray rows
        rows = sum(1 for _ in self.db.utxo_db.iterator(prefix=b'u'))
        hrows = sum(1 for _ in self.db.utxo_db.iterator(prefix=b'h'))
        if rows != len(o['utxos']) or hrows != len(o['utxos']):
            return f'{what}{rows} u-rows / {hrows} h-rows for {len(o["utxos"])} unspent outputs'
        return None

    @staticmethod
    def txhash_of(o, n):
        for hs in o['tx_hashes']:
            if n < len(hs):
                return hs[n]
            n -= len(hs)

    @staticmethod
    def height_of(o, n):
        for h, hs in enumerate(o['tx_hashes']):
            if n < len(hs):
                return h
            n -= len(hs)


# ---------------------------------------------------------------------------------------------------------
# scenarios

def index_forward(w, blocks, rnd, sched=None, upto=None):
    '''advance blocks with a random flush schedule; returns the schedule used'''
    used = []
    for b in blocks[w.bp.state.height + 1: upto]:
        w.bp.touched = set()
        assert w.advance(b), 'block does not connect'
        missing = affected_hashXs(blocks[:b['height'] + 1], 1) - set(w.bp.touched)
        assert not missing, (f'block {b["height"]} changed the history of {len(missing)} script hash(es) that are not in the '
                             f'touched set: their subscribers are never notified')
        r = rnd.random() if sched is None else sched.pop(0)
        used.append(r)
        if r < 0.25:
            w.flush(False)
        elif r < 0.5:
            w.flush(True)
    return used


def scenario_forward(seed):
    rnd = random.Random(seed)
    g = ChainGen(rnd)
    blocks = []
    for _ in range(rnd.randrange(3, 14)):
        blocks.append(g.make_block(blocks))
    w = World(chunk_size=rnd.choice([None, 90, 200, 1000]))
    try:
        w.open()
        index_forward(w, blocks, rnd)
        w.flush(True)
        bad = w.compare(blocks)
        if bad:
            return {'seed': seed, 'blocks': len(blocks)}, bad
        # reopen (restart) and compare again
        w.close()
        w.open()
        bad = w.compare(blocks, 'after restart: ')
        return {'seed': seed, 'blocks': len(blocks)}, bad
    finally:
        w.destroy()


def block_of(prev_blocks, txs, salt=0):
    height = len(prev_blocks)
    prev_hash = prev_blocks[-1]['hash'] if prev_blocks else bytes(32)
    for tx in txs:
        tx['raw'] = ser_tx(tx)
        tx['hash'] = dsha(tx['raw'])
    merkle = dsha(b''.join(t['hash'] for t in txs))
    header = struct.pack('<i', 1) + prev_hash + merkle + struct.pack('<III', height, 0, salt)
    raw = header + varint(len(txs)) + b''.join(t['raw'] for t in txs)
    return {'height': height, 'header': header, 'hash': dsha(header), 'txs': txs, 'raw': raw}


def colliding_pair(op_a, op_b, script_a, script_b):
    '''two transactions (one output each, at index 0) whose hashes share the first four bytes - the compressed hash the
    'h' table is keyed by - found by a birthday search over the output value'''
    table = {}
    for v in range(1, 160000):
        table.setdefault(dsha(ser_tx({'ins': [op_a], 'outs': [(v, script_a)]}))[:4], v)
    for v in range(1, 4000000):
        tb = {'ins': [op_b], 'outs': [(v, script_b)]}
        va = table.get(dsha(ser_tx(tb))[:4])
        if va is not None:
            return {'ins': [op_a], 'outs': [(va, script_a)]}, tb
    raise RuntimeError('no 4-byte collision found')


def scenario_collision(seed):
    '''C01: outputs that share the 4-byte compressed tx hash AND the output index (and, every other time, the script):
    flushed to the DB, then one of them is spent; also after a restart and with the other one spent later.'''
    rnd = random.Random(seed)
    g = ChainGen(rnd)
    blocks = []
    for _ in range(rnd.randrange(3, 6)):
        blocks.append(g.make_block(blocks))
    spendable = sorted(spendable_outputs(blocks))
    if len(spendable) < 2:
        return {'seed': seed, 'scenario': 'collision', 'skipped': 'too few outputs'}, None
    op_a, op_b = rnd.sample(spendable, 2)
    k = seed // 6                       # the four combinations in turn, the most delicate one first
    same_script = k % 2 == 0
    sa = rnd.choice(g.scripts)
    sb = sa if same_script else rnd.choice([x for x in g.scripts if x != sa])
    ta, tb = colliding_pair(op_a, op_b, sa, sb)
    cb = {'ins': [(bytes(32), 0xffffffff)], 'outs': [(50 * 10 ** 8, rnd.choice(g.scripts)), (len(blocks) * 1000, g.scripts[0])]}
    pair = [ta, tb] if rnd.random() < 0.5 else [tb, ta]
    blocks.append(block_of(blocks, [cb] + pair))
    first_spent = pair[1] if (k // 2) % 2 == 0 else pair[0]
    other = pair[0] if first_spent is pair[1] else pair[1]
    desc = {'seed': seed, 'scenario': 'collision', 'same_script': same_script,
            'spent_first': 'earlier tx' if first_spent is pair[0] else 'later tx'}
    w = World()
    try:
        w.open()
        index_forward(w, blocks, rnd)
        w.flush(True)                                   # both outputs are in the DB, not in the cache
        for victim in (first_spent, other):
            cb = {'ins': [(bytes(32), 0xffffffff)], 'outs': [(50 * 10 ** 8, rnd.choice(g.scripts)), (len(blocks) * 1000, g.scripts[1])]}
            sp = {'ins': [(dsha(ser_tx(victim)), 0)], 'outs': [(7, rnd.choice(g.scripts))]}
            blocks.append(block_of(blocks, [cb, sp]))
            try:
                assert w.advance(blocks[-1])
            except BaseException as e:   # noqa
                return desc, f'spending one of two outputs with the same compressed hash and index raised {e!r}'
            w.flush(True)
            bad = w.compare(blocks, 'after spending one of two outputs sharing compressed hash and index: ')
            if bad:
                return desc, bad
            if rnd.random() < 0.5:
                w.close()
                w.open()
        return desc, None
    finally:
        w.destroy()


def scenario_c01(seed):
    return scenario_collision(seed) if seed % 6 == 5 else scenario_forward(seed)


def scenario_reorg(seed):
    rnd = random.Random(seed)
    g = ChainGen(rnd)
    blocks = []
    for _ in range(rnd.randrange(6, 14)):
        blocks.append(g.make_block(blocks))
    w = World()
    try:
        w.open()
        w.daemon.h = len(blocks) - 1
        index_forward(w, blocks, rnd)
        desc = {'seed': seed, 'blocks': len(blocks), 'reorgs': []}
        for r in range(rnd.randrange(1, 4)):
            depth = rnd.randrange(1, min(4, len(blocks) // 2))
            w.flush(True)
            # the script hashes whose history or UTXOs the undone blocks changed: they must all be reported as touched
            # (the server clears the set after every notification, so it is cleared here) - this is what lets subscribers
            # of a script that only SPENT in an orphaned block learn that its history shrank (C07)
            w.bp.touched = set()
            affected = affected_hashXs(blocks, depth)
            for b in reversed(blocks[-depth:]):
                w.backup(b)
            missing = affected - set(w.bp.touched)
            if missing:
                desc['reorgs'].append({'depth': depth})
                return desc, (f'undoing {depth} block(s) changed the history of {len(missing)} script hash(es) that are not in the '
                              f'touched set (e.g. {sorted(missing)[0].hex()}): their subscribers are never notified')
            blocks = blocks[:-depth]
            forced = rnd.random() < 0.3
            desc['reorgs'].append({'depth': depth, 'forced_same_chain': forced})
            new = []
            for _ in range(depth + rnd.randrange(0, 3)):
                new.append(g.make_block(blocks + new, salt=r + 1))
            blocks = blocks + new
            w.daemon.h = len(blocks) - 1
            index_forward(w, blocks, rnd)
        w.flush(True)
        return desc, w.compare(blocks)
    finally:
        w.destroy()


CRASH_POINTS = ['fs-write-0', 'fs-write-1', 'fs-write-2', 'fs-write-torn', 'before-history', 'after-history',
                'after-utxo-batch', 'before-second-state'] + [f'after-durable-event-{k}' for k in range(8)]
# after-durable-event-k: die right after the k-th durable write of the flush, whatever it is - a meta file write, the commit
# of a write batch of either database, or a direct put/delete on either database (so a new write that is not part of the
# atomic batch becomes a crash point of its own)


class BatchProxy:
    def __init__(self, real, on_commit):
        self.real, self.on_commit = real, on_commit

    def __enter__(self):
        return self.real.__enter__()

    def __exit__(self, et, ev, tb):
        r = self.real.__exit__(et, ev, tb)
        if et is None:
            self.on_commit()
        return r


def install_crash(w, point, rnd):
    '''Make the next flush die at the named durable write.'''
    from electrumx.lib import util
    db = w.db
    counter = {'n': 0}
    orig_write = util.LogicalFile.write

    def lf_write(self, start, b):
        k = counter['n']
        counter['n'] += 1
        if point == f'fs-write-{k}':
            raise Crash(point)
        if point == 'fs-write-torn' and k == rnd.randrange(3) and len(b) > 1:
            orig_write(self, start, b[:rnd.randrange(1, len(b))])
            raise Crash(point)
        return orig_write(self, start, b)
    ev = {'n': 0}

    def event():
        k = ev['n']
        ev['n'] += 1
        if point == f'after-durable-event-{k}':
            raise Crash(point)

    if point.startswith('after-durable-event-'):
        def lf_write_ev(self, start, b):
            r = orig_write(self, start, b)
            event()
            return r
        util.LogicalFile.write = lf_write_ev
        for store in (db.utxo_db, db.history.db):
            for meth in ('put', 'delete'):
                if hasattr(store, meth):
                    def direct(*a, _o=getattr(store, meth), **k):
                        r = _o(*a, **k)
                        event()
                        return r
                    setattr(store, meth, direct)
            store.write_batch = (lambda _o=store.write_batch: (lambda *a, **k: BatchProxy(_o(*a, **k), event)))()
    else:
        util.LogicalFile.write = lf_write
    orig_hist = db.flush_history
    orig_utxo = db.flush_utxo_db
    orig_state = db.write_utxo_state

    def flush_history():
        if point == 'before-history':
            raise Crash(point)
        orig_hist()
        if point == 'after-history':
            raise Crash(point)
    db.flush_history = flush_history

    def flush_utxo_db(fd):
        orig_utxo(fd)
        if point == 'after-utxo-batch':
            raise Crash(point)
    db.flush_utxo_db = flush_utxo_db

    def write_utxo_state(batch):
        if point == 'before-second-state' and batch is db.utxo_db:
            raise Crash(point)
        orig_state(batch)
    db.write_utxo_state = write_utxo_state

    def restore():
        util.LogicalFile.write = orig_write
    return restore


def scenario_crash_forward(seed):
    rnd = random.Random(seed)
    g = ChainGen(rnd)
    blocks = []
    for _ in range(rnd.randrange(4, 12)):
        blocks.append(g.make_block(blocks))
    point = CRASH_POINTS[seed % len(CRASH_POINTS)]     # every crash point in any 16 consecutive seeds
    crash_at = rnd.randrange(1, len(blocks))
    full = rnd.random() < 0.6
    desc = {'seed': seed, 'blocks': len(blocks), 'crash_point': point, 'crash_in_flush_after_block': crash_at,
            'full_flush': full}
    w = World()
    try:
        w.open()
        index_forward(w, blocks, rnd, upto=crash_at)
        for b in blocks[w.bp.state.height + 1: crash_at + 1]:
            w.advance(b)
        restore = install_crash(w, point, rnd)
        crashed = False
        try:
            w.flush(full)
        except Crash:
            crashed = True
        finally:
            restore()
        desc['crashed'] = crashed
        w.close()
        try:
            state = w.open()
        except BaseException as e:   # noqa
            return desc, f'database does not open after the crash: {e!r}'
        h = state.height
        desc['height_after_restart'] = h
        bad = w.compare(blocks[:h + 1], f'after crash at {point}: ')
        if bad:
            return desc, bad
        index_forward(w, blocks, rnd)
        w.flush(True)
        return desc, w.compare(blocks, 'after resuming sync: ')
    finally:
        w.destroy()


def scenario_crash_backup(seed, force=None):
    '''C05: die between the history rollback and the UTXO rollback of a backed-up block, restart, catch up with
    the daemon on (a) the new branch, (b) the old branch again, (c) forced reorg where the chain never changed.'''
    rnd = random.Random(seed)
    g = ChainGen(rnd)
    blocks = []
    for _ in range(rnd.randrange(5, 11)):
        blocks.append(g.make_block(blocks))
    cont = rnd.choice(['new-branch', 'old-branch', 'forced-same-chain'])
    cut = rnd.choice(['between-history-and-utxo', 'after-utxo'] + [f'after-durable-event-{k}' for k in range(4)])
    if force:
        cut, cont = force
    desc = {'seed': seed, 'blocks': len(blocks), 'cut': cut, 'continuation': cont}
    w = World()
    try:
        w.open()
        w.daemon.h = len(blocks) - 1
        index_forward(w, blocks, rnd)
        w.flush(True)
        db = w.db
        orig = db.flush_utxo_db
        restore = None
        if cut.startswith('after-durable-event-'):
            # die right after the k-th durable write of the rollback, whatever it is (a batch commit or a direct put of either
            # database): a rollback split over several batches has more of these than the two of the unchanged code
            restore = install_crash(w, cut, rnd)
        else:
            def flush_utxo_db(fd):
                if cut == 'between-history-and-utxo':
                    raise Crash(cut)
                orig(fd)
                raise Crash(cut)
            db.flush_utxo_db = flush_utxo_db
        crashed = False
        try:
            w.backup(blocks[-1])
        except Crash:
            crashed = True
        finally:
            if restore:
                restore()
        desc['crashed'] = crashed
        w.close()
        try:
            state = w.open()
        except BaseException as e:   # noqa
            return desc, f'database does not open: {e!r}'
        h = state.height
        desc['height_after_restart'] = h
        if cut == 'between-history-and-utxo' and cont != 'new-branch':
            desc['class'] = 'KF-C05-1'
        if cut.startswith('after-durable-event-') and crashed and cont != 'new-branch' and h == len(blocks) - 1:
            # the listed finding is the cut AFTER THE COMPLETE history rollback and before the UTXO rollback; a cut that leaves
            # the histories half rolled back is a different failure
            want = oracle(blocks[:-1])['hist']
            hxs = set(oracle(blocks)['hist'])
            if all(list(w.db.history.get_txnums(hx, limit=None)) == want.get(hx, []) for hx in hxs):
                desc['class'] = 'KF-C05-1'
        if cont == 'new-branch':
            final = blocks[:-1] + [g.make_block(blocks[:-1], salt=9)]
            final.append(g.make_block(final, salt=9))
        else:
            final = list(blocks)
            final.append(g.make_block(final, salt=7))
        # catch up as the block processor does: advance; on a prev-hash mismatch back up and retry
        guard = 0
        while w.bp.state.height < len(final) - 1 and guard < 50:
            guard += 1
            nxt = final[w.bp.state.height + 1]
            if not w.advance(nxt):
                w.flush(True)
                mine = blocks[w.bp.state.height]
                try:
                    w.backup(mine)
                except ChainError as e:
                    return desc, f'cannot back up after restart: {e!r}'
        w.flush(True)
        return desc, w.compare(final, f'after crash ({cut}) and catching up on the {cont}: ')
    finally:
        w.destroy()


def scenario_undo_window_falling(seed):
    return scenario_undo_window(seed, falling=True)


def scenario_undo_window(seed, falling=False):
    '''C15: caught up at height T with reorg limit L: every reorg of depth <= L can be carried out; depth L+1 is refused.'''
    rnd = random.Random(seed)
    g = ChainGen(rnd)
    limit = rnd.choice([1, 2, 3, 5, 50])
    blocks = []
    for _ in range(rnd.randrange(6, 13)):
        blocks.append(g.make_block(blocks))
    T = len(blocks) - 1
    restart_at = rnd.choice([None, rnd.randrange(1, T)])
    desc = {'seed': seed, 'reorg_limit': limit, 'T': T, 'restart_at': restart_at}
    w = World(reorg_limit=limit)
    try:
        w.open()
        # non-decreasing daemon-height trajectory ending at T
        traj = sorted(rnd.randrange(0, T + 1) for _ in blocks)
        traj[-1] = T
        desc['daemon_heights'] = traj
        if falling:
            # the daemon reported a greater height while indexing than where the server later sits caught up
            traj = [T + rnd.randrange(1, 4) for _ in blocks]
            desc['daemon_heights'] = traj
            desc['class'] = 'KF-C15-1'
        for i, b in enumerate(blocks):
            w.daemon.h = traj[i] if falling else (max(traj[i], i) if rnd.random() < 0.5 else T)
            w.advance(b)
            r = rnd.random()
            if r < 0.3:
                w.flush(rnd.random() < 0.5)
            if restart_at == i:
                w.flush(True)
                w.close()
                w.open()
        w.flush(True)
        for depth in range(1, min(limit, T) + 1):
            h = T - depth + 1
            if w.db.read_undo_info(h) is None:
                return desc, f'no undo information for height {h} (depth {depth} <= limit {limit}) at tip {T}'
        w.close()
        w.open()       # start-up clears undo information older than the window
        low = [k for k, _ in w.db.utxo_db.iterator(prefix=b'U')]
        heights = [struct.unpack('>I', k[-4:])[0] for k in low]
        if any(hh < T - limit + 1 for hh in heights):
            return desc, f'undo information older than the window kept after restart: {sorted(heights)}'
        for depth in range(1, min(limit, T) + 1):
            if T - depth + 1 not in heights:
                return desc, f'undo information for height {T - depth + 1} lost at restart'
        # carry out a reorg of depth = min(limit, T)
        depth = min(limit, T)
        for b in reversed(blocks[-depth:]):
            try:
                w.backup(b)
            except ChainError as e:
                return desc, f'reorg of depth {depth} (limit {limit}) refused: {e!r}'
        bad = w.compare(blocks[:-depth], f'after undoing {depth} blocks: ')
        return desc, bad
    finally:
        w.destroy()


class ToolKilled(BaseException):
    pass


def run_compaction_tool(w, rowlen, limit, kill_after=None, kill_before_set_flush_count=False):
    '''Run the REAL compaction tool - the function compact_history() of the script electrumx_compact_history, loaded from the
    repository under test - on the world's database directory.  Only its collaborators are adapted: Env() gives the world's
    environment, the row size is the scenario's, each batch uses the scenario's (small) limit instead of 8 MB, and the tool can
    be killed after a number of batches or right before set_flush_count.  Returns (batches, completed).'''
    import importlib.machinery
    import importlib.util
    import electrumx
    path = os.path.join(os.path.dirname(os.path.dirname(os.path.abspath(electrumx.__file__))), 'electrumx_compact_history')
    loader = importlib.machinery.SourceFileLoader('electrumx_compact_history_tool', path)
    spec = importlib.util.spec_from_loader(loader.name, loader)
    mod = importlib.util.module_from_spec(spec)
    loader.exec_module(mod)
    n = {'batches': 0}

    def make_db(env):
        db = DB(env)
        w.db = db
        orig_open = db.open_for_compacting

        async def open_for_compacting():
            state = await orig_open()
            hist = db.history
            hist.max_hist_row_entries = rowlen
            real = hist._compact_history

            def one_batch(_limit):
                if kill_after is not None and n['batches'] >= kill_after:
                    raise ToolKilled()
                n['batches'] += 1
                return real(limit)
            hist._compact_history = one_batch
            return state
        db.open_for_compacting = open_for_compacting
        if kill_before_set_flush_count:
            def killed(_count):
                raise ToolKilled()
            db.set_flush_count = killed
        return db
    mod.Env = lambda: w.env
    mod.DB = make_db
    saved = os.environ.get('DAEMON_URL')
    completed = True
    try:
        w.run(mod.compact_history(), timeout=100)
    except ToolKilled:
        completed = False
    finally:
        if saved is not None:
            os.environ['DAEMON_URL'] = saved
        w.close()
    return n['batches'], completed


def scenario_compaction(seed, force_mode=None, force_rowlen=None):
    '''C14: compaction in one go / with small batch limits / killed between batches / abandoned then indexing.'''
    rnd = random.Random(seed)
    g = ChainGen(rnd)
    blocks = []
    for _ in range(rnd.randrange(5, 12)):
        blocks.append(g.make_block(blocks))
    mode = rnd.choice(['one-go', 'batches', 'killed-between-batches', 'abandoned-then-index', 'killed-before-set-flush-count'])
    rowlen = rnd.choice([1, 2, 3, 12500])
    mode, rowlen = force_mode or mode, force_rowlen or rowlen
    desc = {'seed': seed, 'mode': mode, 'row_entries': rowlen, 'blocks': len(blocks)}
    w = World()
    try:
        w.open()
        sched = [rnd.choice([0.1, 0.3, 0.9]) for _ in blocks]
        index_forward(w, blocks[:-2], rnd, sched=list(sched))
        w.bp.state.first_sync = False           # the server had caught up (the tool refuses a database in its first sync)
        w.flush(True)
        w.db.state.first_sync = False
        w.db.write_utxo_state(w.db.utxo_db)
        w.close()
        # the compaction tool itself (electrumx_compact_history.compact_history), killed where the mode says
        limit = 8 * 1000 * 1000 if mode == 'one-go' else rnd.choice([1, 30, 200])
        kill_after = rnd.randrange(1, 40) if mode in ('killed-between-batches', 'abandoned-then-index') else None
        batches, completed = run_compaction_tool(w, rowlen, limit, kill_after=kill_after,
                                                 kill_before_set_flush_count=(mode == 'killed-before-set-flush-count'))
        if mode == 'killed-before-set-flush-count':
            completed = True          # every batch ran; only the final set_flush_count did not
        desc['batches'] = batches
        desc['completed'] = completed
        if mode == 'abandoned-then-index' and not completed:
            # the statement restricts this clause to databases where no script hash ends up with more compacted
            # rows than the flush count
            w.open(compacting=True)
            rows = {}
            for k, _v in w.db.history.db.iterator(prefix=b''):
                if len(k) == HASHX_LEN + 2:
                    rows[k[:-2]] = max(rows.get(k[:-2], 0), struct.unpack('>H', k[-2:])[0])
            too_many = bool(rows) and max(rows.values()) > w.db.state.flush_count
            w.close()
            if too_many:
                desc['skipped'] = 'outside the stated restriction (more compacted rows than the flush count)'
                return desc, None
        if mode == 'killed-between-batches' and not completed:
            # resume with the tool
            run_compaction_tool(w, rowlen, limit)
        w.open()
        w.db.history.max_hist_row_entries = rowlen
        bad = w.compare(blocks[:-2], f'server started after compaction ({mode}): ')
        if bad:
            if mode == 'killed-before-set-flush-count':
                desc['class'] = 'KF-C14-1'
            return desc, bad
        # indexing and undoing on top
        w.daemon.h = len(blocks) - 1
        index_forward(w, blocks, rnd)
        w.flush(True)
        bad = w.compare(blocks, 'after indexing on top of the compacted history: ')
        if bad:
            return desc, bad
        w.backup(blocks[-1])
        return desc, w.compare(blocks[:-1], 'after undoing a block on top of the compacted history: ')
    finally:
        w.destroy()


def scenario_compaction_twice(seed):
    '''C14: compact, let the server index more blocks (several flushes), compact again - most script hashes are then
    already in compacted form and untouched -, index again on top, compare.'''
    rnd = random.Random(seed)
    g = ChainGen(rnd)
    blocks = []
    for _ in range(rnd.randrange(9, 16)):
        blocks.append(g.make_block(blocks))
    rowlen = rnd.choice([1, 1, 2, 3])
    a, b = len(blocks) - 5, len(blocks) - 3
    desc = {'seed': seed, 'mode': 'compact-index-compact-index', 'row_entries': rowlen, 'blocks': len(blocks)}
    w = World()

    def compact(limit):
        run_compaction_tool(w, rowlen, limit)

    try:
        w.open()
        w.daemon.h = len(blocks) - 1
        index_forward(w, blocks[:a], rnd, sched=[rnd.choice([0.3, 0.9]) for _ in blocks])
        w.bp.state.first_sync = False
        w.flush(True)
        w.db.state.first_sync = False
        w.db.write_utxo_state(w.db.utxo_db)
        w.close()
        compact(rnd.choice([8_000_000, 200]))
        w.open()
        w.db.history.max_hist_row_entries = rowlen
        index_forward(w, blocks[:b], rnd, sched=[0.9 for _ in blocks])
        w.flush(True)
        w.close()
        compact(rnd.choice([8_000_000, 30]))
        w.open()
        w.db.history.max_hist_row_entries = rowlen
        bad = w.compare(blocks[:b], 'server started after the second compaction: ')
        if bad:
            return desc, bad
        index_forward(w, blocks, rnd, sched=[0.9 for _ in blocks])
        w.flush(True)
        return desc, w.compare(blocks, 'after indexing on top of the twice-compacted history: ')
    finally:
        w.destroy()


def scenario_c05_kf(seed):
    '''probe of the listed finding KF-C05-1'''
    return scenario_crash_backup(seed, force=('between-history-and-utxo', 'old-branch' if seed % 2 else 'forced-same-chain'))


def scenario_c14_kf(seed):
    '''probe of the listed finding KF-C14-1: compaction completed, tool killed before set_flush_count, one-entry rows'''
    return scenario_compaction(seed, force_mode='killed-before-set-flush-count', force_rowlen=1)


def scenario_c14(seed):
    return scenario_compaction_twice(seed) if seed % 3 == 2 else scenario_compaction(seed)


MODES = {'c01': scenario_c01, 'c02': scenario_forward, 'c03': scenario_reorg, 'c04': scenario_crash_forward,
         'c05': scenario_crash_backup, 'c14': scenario_c14, 'c15': scenario_undo_window,
         'c15-falling': scenario_undo_window_falling, 'c14-kf': scenario_c14_kf, 'c05-kf': scenario_c05_kf}


def main():
    req = json.loads(sys.stdin.read() or '{}')
    o = req.get('obligation') or ''
    by_obligation = None
    if 'clear_excess' in o and 'undo' not in o:
        by_obligation = 'c04+c14'
    elif 'ompact' in o:
        by_obligation = 'c14'
    elif 'undo' in o:
        by_obligation = 'c15'
    elif 'flush_backup' in o or 'History.backup' in o:
        by_obligation = 'c03'
    elif 'flush' in o or 'write_utxo_state' in o or 'LogicalFile' in o:
        by_obligation = 'c04'
    elif 'backup_block' in o or 'reorg' in o:
        by_obligation = 'c03'
    mode = req.get('mode') or by_obligation or 'c01'
    rounds = int(req.get('rounds') or 30)
    seed0 = int(req.get('seed') or 0) * 100003
    known = set(req.get('known') or [])
    modes = mode.split('+')
    found_known = None
    for i in range(rounds * len(modes)):
        fn = MODES[modes[i % len(modes)]]
        try:
            desc, bad = guarded(fn, seed0 + i // len(modes))
        except ScenarioHang:
            desc, bad = {'seed': seed0 + i // len(modes), 'mode': modes[i % len(modes)]}, \
                'the scenario did not finish within 120 s (normal: < 2 s): the index operation or the restart hangs'
            os.chdir('/')
        except BaseException as e:   # noqa
            import traceback
            desc, bad = {'seed': seed0 + i}, f'scenario raised {e!r}: {traceback.format_exc()[-600:]}'
        if bad:
            cls = desc.get('class') if isinstance(desc, dict) else None
            if cls and cls in known:
                found_known = found_known or {'class': cls, 'input': desc, 'detail': bad}
                continue
            print(json.dumps({'reproduced': True, 'input': desc, 'detail': bad, 'cases': i + 1, 'class': cls}, default=repr))
            return
    out = {'reproduced': False, 'detail': f'{rounds} generated scenarios agree with the clean index', 'cases': rounds}
    if found_known:
        out['known'] = found_known
    print(json.dumps(out, default=repr))


if __name__ == '__main__':
    main()
