'''Native replay / counterexample search for C12 (and the merkle part of C11) on the real
electrumx.lib.merkle.  An executable twin of the specification (Bitcoin merkle tree, written from
the definition) is compared with the real functions:
  branch_length  : 1..4096 and 2^k-1, 2^k, 2^k+1 for k <= 62
  the rest       : every list length 1..40, every index, natural and over-long lengths, both formats
  MerkleCache    : initialise/extend/truncate/query sequences against the from-scratch computation
Request on stdin: {"obligation": name}.  Answer: {"reproduced": bool, "input": ..., "detail": ...}
'''
import asyncio
import hashlib
import itertools
import json
import random
import sys

from electrumx.lib.merkle import Merkle, MerkleCache


def H(x):
    return hashlib.sha256(hashlib.sha256(x).digest()).digest()


def clog2(n):
    k = 0
    while (1 << k) < n:
        k += 1
    return k


def spec_levels(hashes, depth):
    '''levels[0] = leaves ... levels[depth] = [root]'''
    levels = [list(hashes)]
    for _ in range(depth):
        cur = levels[-1]
        if len(cur) & 1:
            cur = cur + [cur[-1]]
        levels.append([H(cur[i] + cur[i + 1]) for i in range(0, len(cur), 2)])
    return levels


def spec_branch_root(hashes, index, length=None, tsc=False):
    depth = clog2(len(hashes)) if length is None else length
    levels = spec_levels(hashes, depth)
    branch = []
    for d in range(depth):
        cur = levels[d]
        i = index >> d
        sib = i ^ 1
        if sib >= len(cur):          # duplicated node
            branch.append(b'*' if tsc else cur[i])
        else:
            branch.append(cur[sib])
    assert len(levels[depth]) == 1
    return branch, levels[depth][0]


def spec_fold(h, branch, index):
    for e in branch:
        h = H(e + h) if index & 1 else H(h + e)
        index >>= 1
    return h


def leaves(n, salt=0):
    return [hashlib.sha256(b'%d/%d' % (salt, i)).digest() for i in range(n)]


def check_branch_length():
    m = Merkle()
    cands = list(range(1, 4097))
    for k in range(1, 63):
        cands += [2 ** k - 1, 2 ** k, 2 ** k + 1]
    bad = []
    for n in cands:
        try:
            got = m.branch_length(n)
        except Exception as e:   # noqa
            got = repr(e)
        if got != clog2(n):
            bad.append((n, got, clog2(n)))
    if bad:
        return {'reproduced': True, 'input': {'hash_count': bad[0][0]},
                'detail': f'branch_length({bad[0][0]}) = {bad[0][1]}, definition gives {bad[0][2]}; '
                          f'{len(bad)} wrong of {len(cands)} tried: {[b[0] for b in bad][:8]}...'}
    return {'reproduced': False, 'detail': f'{len(cands)} values agree'}


def check_tree():
    m = Merkle()
    tried = 0
    for n in range(1, 41):
        hs = leaves(n)
        for extra in (None, 0, 1, 3):
            length = None if extra is None else clog2(n) + extra
            for index in range(n):
                for tsc in (False, True):
                    tried += 1
                    want_b, want_r = spec_branch_root(hs, index, length, tsc)
                    try:
                        got_b, got_r = m.branch_and_root(hs, index, length, tsc_format=tsc)
                    except Exception as e:   # noqa
                        return {'reproduced': True, 'input': {'n': n, 'index': index, 'length': length, 'tsc': tsc},
                                'detail': f'branch_and_root raised {e!r}'}
                    if got_b != want_b or got_r != want_r:
                        return {'reproduced': True, 'input': {'n': n, 'index': index, 'length': length, 'tsc': tsc},
                                'detail': 'branch_and_root differs from the definition'}
                    if not tsc:
                        try:
                            f = m.root_from_proof(hs[index], got_b, index)
                        except Exception as e:   # noqa
                            f = repr(e)
                        if f != want_r or spec_fold(hs[index], got_b, index) != want_r:
                            return {'reproduced': True, 'input': {'n': n, 'index': index, 'length': length},
                                    'detail': 'root_from_proof does not fold the branch to the root'}
            if m.root(hs) != spec_branch_root(hs, 0)[1]:
                return {'reproduced': True, 'input': {'n': n}, 'detail': 'root differs from the definition'}
        # level / branch_and_root_from_level
        for dh in range(0, clog2(n) + 1):
            try:
                level = m.level(hs, dh)
            except Exception as e:   # noqa
                return {'reproduced': True, 'input': {'n': n, 'depth_higher': dh}, 'detail': f'level raised {e!r}'}
            want_level = [spec_branch_root(hs[a:a + (1 << dh)], 0, dh)[1] for a in range(0, n, 1 << dh)]
            if level != want_level:
                return {'reproduced': True, 'input': {'n': n, 'depth_higher': dh}, 'detail': 'level differs'}
            for index in range(n):
                for tsc in (False, True):
                    tried += 1
                    ls = (index >> dh) << dh
                    leaf = hs[ls: ls + (1 << dh)]
                    want = spec_branch_root(hs, index, None, tsc)
                    try:
                        got = m.branch_and_root_from_level(level, leaf, index, dh, tsc_format=tsc)
                    except Exception as e:   # noqa
                        got = repr(e)
                    if got != want:
                        return {'reproduced': True, 'input': {'n': n, 'index': index, 'depth_higher': dh, 'tsc': tsc},
                                'detail': 'branch_and_root_from_level differs from branch_and_root'}
    return {'reproduced': False, 'detail': f'{tried} cases agree'}


def tsc_equiv(got, want, plain):
    '''TSC branches may mark a duplicate differently when a sub-tree is padded beyond its
    natural depth; they must agree with the classic branch wherever no marker is used.'''
    return len(got) == len(plain) and all(g == p or g == b'*' for g, p in zip(got, plain))


async def cache_run(ops, src_len, seed):
    m = Merkle()
    hs = leaves(src_len, seed)

    async def source(a, c):
        return hs[a:a + c]
    cache = MerkleCache(m, source)
    for op in ops:
        if op[0] == 'init':
            await cache.initialize(op[1])
        elif op[0] == 'trunc':
            cache.truncate(op[1])
        else:
            _, length, index, tsc = op
            want = spec_branch_root(hs[:length], index, None, tsc)
            got = await cache.branch_and_root(length, index, tsc_format=tsc)
            if got != want:
                return op
    return None


def check_cache():
    rnd = random.Random(12)
    tried = 0
    for init in range(1, 34):
        for _ in range(40):
            ops = [('init', init)]
            for _ in range(rnd.randint(1, 5)):
                x = rnd.random()
                if x < 0.12:
                    ops.append(('init', rnd.randint(1, 48)))      # initialised again (any order)
                elif x < 0.35:
                    ops.append(('trunc', rnd.randint(1, 48)))
                else:
                    length = rnd.randint(1, 48)
                    ops.append(('query', length, rnd.randrange(length), rnd.random() < 0.3))
            tried += 1
            try:
                bad = asyncio.run(cache_run(ops, 48, init))
            except Exception as e:   # noqa
                return {'reproduced': True, 'input': ops, 'detail': f'MerkleCache raised {e!r}'}
            if bad is not None:
                return {'reproduced': True, 'input': ops, 'detail': f'cache answer differs from scratch at {bad}'}
    return {'reproduced': False, 'detail': f'{tried} operation sequences agree'}


def main():
    req = json.loads(sys.stdin.read() or '{}')
    o = req.get('obligation') or ''
    if 'branch_length' in o or 'tree_depth' in o:
        res = check_branch_length()
    elif 'MerkleCache' in o:
        res = check_cache()
        if not res['reproduced']:
            res = check_tree()
    else:
        res = check_tree()
    print(json.dumps(res, default=repr))


if __name__ == '__main__':
    main()
