'''Native replay for the History read path (C02/C17): History.get_txnums over an in-memory ordered key/value
store with rows of every small shape, for every limit around the total; util.chunks / resolve_limit.'''
import itertools
import json
import struct
import sys

from electrumx.server.history import History
from electrumx.lib import util


class FakeDB:
    def __init__(self, rows):
        self.rows = dict(rows)

    def iterator(self, prefix=b'', reverse=False):
        keys = sorted(k for k in self.rows if k.startswith(prefix))
        if reverse:
            keys.reverse()
        return iter([(k, self.rows[k]) for k in keys])


def pack5(n):
    return struct.pack('<Q', n)[:5]


def check_add_unflushed(rounds, seed):
    '''History.add_unflushed against its definition: every script hash gets the 5-byte number of each transaction that
    touches it, once per transaction, in order.  Besides random cases the generator is adversarial about byte
    alignment: later transaction numbers are chosen so that their 5-byte encoding occurs at a NON-aligned offset (or at
    an aligned one, i.e. a genuine repeat is impossible since numbers increase) of what is already recorded.'''
    import random
    from collections import defaultdict
    rnd = random.Random(seed)
    hxs = [bytes([i]) * 11 for i in range(1, 6)]
    for case in range(rounds):
        h = History()
        h.unflushed = defaultdict(bytearray)
        h.unflushed_count = 0
        model = {}
        count = 0
        first = rnd.choice([0, 1, 255, 256, 65535, 65536, rnd.randrange(1 << 24), rnd.randrange(1 << 32), rnd.randrange(1 << 39)])
        calls = []
        for call in range(rnd.randrange(1, 5)):
            if call and rnd.random() < 0.7:
                # adversarial jump: a number whose encoding is a misaligned window of some recorded history
                cands = []
                for hx, b in model.items():
                    for off in range(1, max(1, len(b) - 4)):
                        if off % 5:
                            n = int.from_bytes(bytes(b[off:off + 5]), 'little')
                            if n >= first:
                                cands.append((n, hx))
                if cands:
                    first, target = rnd.choice(cands)
                else:
                    target = None
            else:
                target = None
            by_tx = []
            for k in range(rnd.randrange(1, 6)):
                tx = [rnd.choice(hxs) for _ in range(rnd.randrange(0, 5))]
                if target is not None and k == 0:
                    tx.append(target)
                by_tx.append(tx)
            calls.append((first, [[x.hex()[:2] for x in tx] for tx in by_tx]))
            for i, tx in enumerate(by_tx):
                for hx in dict.fromkeys(tx):
                    model.setdefault(hx, bytearray()).extend(pack5(first + i))
                    count += 1
            try:
                h.add_unflushed(by_tx, first)
            except BaseException as e:   # noqa
                return case, {'calls': calls}, f'add_unflushed raised {e!r}'
            first += len(by_tx) + rnd.choice([0, 0, 1, 300])
            got = {k: bytes(v) for k, v in h.unflushed.items() if v}
            want = {k: bytes(v) for k, v in model.items()}
            if got != want:
                bad = [k for k in set(got) | set(want) if got.get(k) != want.get(k)][0]
                return case, {'calls': calls}, (f'unflushed history of script hash {bad.hex()[:2]}.. has {len(got.get(bad, b"")) // 5} entries, '
                                                f'its transactions are {len(want.get(bad, b"")) // 5}')
            if h.unflushed_count != count:
                return case, {'calls': calls}, f'unflushed_count is {h.unflushed_count}, {count} entries were added'
    return rounds, None, None


def main():
    req = json.loads(sys.stdin.read() or '{}')
    cases, inp, bad = check_add_unflushed(int(req.get('rounds') or 400), int(req.get('seed') or 0))
    if bad:
        print(json.dumps({'reproduced': True, 'input': inp, 'detail': bad, 'cases': cases}))
        return
    if 'add_unflushed' in (req.get('obligation') or ''):
        print(json.dumps({'reproduced': False, 'detail': f'{cases} add_unflushed call sequences agree with the definition', 'cases': cases}))
        return
    hx = b'\x01' * 11
    other = b'\x02' * 11
    n = 0
    for shape in itertools.product((0, 1, 2, 5), repeat=3):
        nums = list(range(100, 100 + sum(shape)))
        rows, k = {}, 0
        for rid, cnt in enumerate(shape):
            if cnt:
                rows[hx + struct.pack('>H', rid)] = b''.join(struct.pack('<Q', x)[:5] for x in nums[k:k + cnt])
                k += cnt
        rows[other + struct.pack('>H', 0)] = struct.pack('<Q', 7)[:5]
        h = History()
        h.db = FakeDB(rows)
        for limit in [None, -1, 0, 1, 2, len(nums) - 1, len(nums), len(nums) + 1, 1000]:
            n += 1
            want = nums if (limit is None or limit < 0) else nums[:limit]
            try:
                got = list(h.get_txnums(hx, limit))
            except BaseException as e:   # noqa
                print(json.dumps({'reproduced': True, 'input': {'rows': list(shape), 'limit': limit}, 'detail': f'raised {e!r}'}))
                return
            if got != want:
                print(json.dumps({'reproduced': True, 'input': {'rows': list(shape), 'limit': limit},
                                  'detail': f'get_txnums yielded {len(got)} entries, the history has {len(nums)} and limit is {limit}'}))
                return
    for items, size in ((b'', 5), (b'12345', 5), (b'1234567', 5), (b'1234567890', 5)):
        if list(util.chunks(items, size)) != [items[i:i + size] for i in range(0, len(items), size)]:
            print(json.dumps({'reproduced': True, 'input': {'items': len(items)}, 'detail': 'chunks differs'}))
            return
    print(json.dumps({'reproduced': False, 'detail': f'{n} (rows, limit) cases agree', 'cases': n}))


if __name__ == '__main__':
    main()
