'''Native replay for the History read path (C02/C17): History.get_txnums over an in-memory ordered key/value
store with rows of every small shape, for every limit around the total; util.chunks / resolve_limit.'''
import itertools
import json
import struct
import sys

from electrumx.server.history import History
from electrumx.lib import util


class FakeDB:
    def __init__(self, rows):
        self.rows = dict(rows)

    def iterator(self, prefix=b'', reverse=False):
        keys = sorted(k for k in self.rows if k.startswith(prefix))
        if reverse:
            keys.reverse()
        return iter([(k, self.rows[k]) for k in keys])


def main():
    req = json.loads(sys.stdin.read() or '{}')
    hx = b'\x01' * 11
    other = b'\x02' * 11
    n = 0
    for shape in itertools.product((0, 1, 2, 5), repeat=3):
        nums = list(range(100, 100 + sum(shape)))
        rows, k = {}, 0
        for rid, cnt in enumerate(shape):
            if cnt:
                rows[hx + struct.pack('>H', rid)] = b''.join(struct.pack('<Q', x)[:5] for x in nums[k:k + cnt])
                k += cnt
        rows[other + struct.pack('>H', 0)] = struct.pack('<Q', 7)[:5]
        h = History()
        h.db = FakeDB(rows)
        for limit in [None, -1, 0, 1, 2, len(nums) - 1, len(nums), len(nums) + 1, 1000]:
            n += 1
            want = nums if (limit is None or limit < 0) else nums[:limit]
            try:
                got = list(h.get_txnums(hx, limit))
            except BaseException as e:   # noqa
                print(json.dumps({'reproduced': True, 'input': {'rows': list(shape), 'limit': limit}, 'detail': f'raised {e!r}'}))
                return
            if got != want:
                print(json.dumps({'reproduced': True, 'input': {'rows': list(shape), 'limit': limit},
                                  'detail': f'get_txnums yielded {len(got)} entries, the history has {len(nums)} and limit is {limit}'}))
                return
    for items, size in ((b'', 5), (b'12345', 5), (b'1234567', 5), (b'1234567890', 5)):
        if list(util.chunks(items, size)) != [items[i:i + size] for i in range(0, len(items), size)]:
            print(json.dumps({'reproduced': True, 'input': {'items': len(items)}, 'detail': 'chunks differs'}))
            return
    print(json.dumps({'reproduced': False, 'detail': f'{n} (rows, limit) cases agree', 'cases': n}))


if __name__ == '__main__':
    main()
