'''Native bounded stand-in / replay for C08 and C09 on the real MemPool class.

An independent model of "daemon mempool + confirmed UTXO set" is evolved by random steps (arrivals incl. long
unconfirmed chains delivered in any order, evictions, confirmations, generation-like inputs, several outputs to one
script hash); after every step one refresh is run (the body of one _refresh_hashes iteration) and - when the step was
quiet - every observable is compared with the model: balance delta, summaries (fee, has-unconfirmed-inputs), unconfirmed
UTXOs, potential spends, the touched set, and the by-script-hash index being the exact inverse of the transaction set.
With races on (C09) the daemon drops transactions between listing and fetching, UTXO lookups miss, and the refresh must
not raise, must never record a wrong input, must keep the inverse index exact, and must be exact after the next quiet
refresh.
Request: {"mode": "c08"|"c09", "rounds": n, "seed": s}.'''
import asyncio
from _watchdog import guarded, ScenarioHang
import hashlib
import json
import logging
import random
import struct
import sys

logging.disable(logging.CRITICAL)

from electrumx.lib.coins import BitcoinSV                                   # noqa: E402
from electrumx.lib.hash import hash_to_hex_str, hex_str_to_hash, HASHX_LEN  # noqa: E402
from electrumx.server.mempool import MemPool, MemPoolAPI                    # noqa: E402

coin = BitcoinSV


def dsha(b):
    return hashlib.sha256(hashlib.sha256(b).digest()).digest()


def varint(n):
    return bytes([n]) if n < 253 else b'\xfd' + struct.pack('<H', n)


def ser(ins, outs):
    b = struct.pack('<i', 1) + varint(len(ins))
    for ph, pi in ins:
        b += ph + struct.pack('<I', pi) + varint(0) + struct.pack('<I', 0xffffffff)
    b += varint(len(outs))
    for value, script in outs:
        b += struct.pack('<q', value) + varint(len(script)) + script
    return b + struct.pack('<I', 0)


class Model(MemPoolAPI):
    def __init__(self, rnd):
        self.rnd = rnd
        self.scripts = [b'\x76\xa9\x14' + bytes([i]) * 20 + b'\x88\xac' for i in range(8)]
        self.h = 100
        self.utxos = {}            # confirmed: outpoint -> (hashX, value)
        for i in range(30):
            self.utxos[(dsha(b'c%d' % i), i % 3)] = (coin.hashX_from_script(rnd.choice(self.scripts)), rnd.randrange(1000, 100000))
        self.pool = {}             # tx hash -> (ins, outs, raw)
        self.spent = set()         # outpoints spent by mempool txs
        self.drop_fetch = set()
        self.miss_lookup = 0.0
        self.on = []

    # -- model evolution
    def avail(self):
        out = [op for op in self.utxos if op not in self.spent]
        for h, (ins, outs, raw) in self.pool.items():
            out += [(h, i) for i in range(len(outs)) if (h, i) not in self.spent]
        return out

    def add_tx(self):
        av = self.avail()
        if not av:
            return
        ins = []
        for _ in range(self.rnd.randrange(1, 4)):
            if av:
                op = self.rnd.choice(av)
                av.remove(op)
                ins.append(op)
        if self.rnd.random() < 0.1:
            ins.append((bytes(32), 0xffffffff))          # generation-like input
        outs = [(self.rnd.randrange(0, 5000), self.rnd.choice(self.scripts)) for _ in range(self.rnd.randrange(1, 4))]
        if self.rnd.random() < 0.25:
            # a data-carrier output that is NOT the last one: output positions of the later outputs must not shift
            outs.insert(self.rnd.randrange(0, len(outs)), (0, self.rnd.choice([b'\x00\x6a\x04data', b'\x6a\x04data'])))
        raw = ser(ins, outs)
        self.pool[dsha(raw)] = (ins, outs, raw)
        self.spent.update(op for op in ins if op[0] != bytes(32))

    def descendants(self, h):
        out = {h}
        changed = True
        while changed:
            changed = False
            for t, (ins, outs, raw) in self.pool.items():
                if t not in out and any(op[0] in out for op in ins):
                    out.add(t)
                    changed = True
        return out

    def evict(self):
        if not self.pool:
            return
        for t in self.descendants(self.rnd.choice(sorted(self.pool))):
            ins, outs, raw = self.pool.pop(t)
            self.spent.difference_update(ins)

    def confirm(self):
        '''a block confirms a parent-closed subset of the mempool'''
        order = self.topo()
        take = set()
        for t in order:
            ins = self.pool[t][0]
            if all(op[0] not in self.pool or op[0] in take for op in ins) and self.rnd.random() < 0.6:
                take.add(t)
        for t in order:
            if t in take:
                ins, outs, raw = self.pool.pop(t)
                for op in ins:
                    self.utxos.pop(op, None)
                    self.spent.discard(op)
                for i, (v, s) in enumerate(outs):
                    self.utxos[(t, i)] = (coin.hashX_from_script(s), v)
        self.h += 1

    def topo(self):
        done, order = set(), []
        while len(order) < len(self.pool):
            for t, (ins, outs, raw) in sorted(self.pool.items()):
                if t not in done and all(op[0] not in self.pool or op[0] in done for op in ins):
                    done.add(t)
                    order.append(t)
        return order

    # -- expected observables
    def in_pair(self, op):
        if op in self.utxos:
            return self.utxos[op]
        ins, outs, raw = self.pool[op[0]]
        v, s = outs[op[1]]
        return coin.hashX_from_script(s), v

    def expected(self):
        delta, summ, utx, spends, inverse = {}, {}, {}, {}, {}
        for t, (ins, outs, raw) in self.pool.items():
            real_ins = [op for op in ins if op[0] != bytes(32)]
            ipairs = [self.in_pair(op) for op in real_ins]
            opairs = [(coin.hashX_from_script(s), v) for v, s in outs]
            fee = max(0, sum(v for _, v in ipairs) - sum(v for _, v in opairs))
            has_ui = any(op[0] in self.pool for op in real_ins)
            hxs = {hx for hx, _ in ipairs + opairs}
            for hx, v in ipairs:
                delta[hx] = delta.get(hx, 0) - v
            for i, (hx, v) in enumerate(opairs):
                delta[hx] = delta.get(hx, 0) + v
                utx.setdefault(hx, set()).add((t, i, v))
            for hx in hxs:
                summ.setdefault(hx, set()).add((t, fee, has_ui))
                spends.setdefault(hx, set()).update(real_ins)
                inverse.setdefault(hx, set()).add(t)
        return delta, summ, utx, spends, inverse

    # -- MemPoolAPI
    async def height(self):
        return self.h

    def cached_height(self):
        return self.h

    def db_height(self):
        return self.h

    async def mempool_hashes(self):
        hs = [hash_to_hex_str(t) for t in self.pool]
        self.rnd.shuffle(hs)
        return hs

    async def raw_transactions(self, hex_hashes):
        out = []
        for hh in hex_hashes:
            t = hex_str_to_hash(hh)
            out.append(None if (t in self.drop_fetch or t not in self.pool) else self.pool[t][2])
        return out

    async def lookup_utxos(self, prevouts):
        return [None if (self.rnd.random() < self.miss_lookup) else self.utxos.get(op) for op in prevouts]

    async def on_mempool(self, touched, height):
        self.on.append((set(touched), height))


async def refresh(mp, m, touched):
    height = m.cached_height()
    hex_hashes = await m.mempool_hashes()
    hashes = set(hex_str_to_hash(hh) for hh in hex_hashes)
    await mp._process_mempool(hashes, touched, height)


def check_inverse(mp):
    inv = {}
    for t, tx in mp.txs.items():
        for hx, _v in list(tx.in_pairs) + list(tx.out_pairs):
            inv.setdefault(hx, set()).add(t)
    got = {hx: set(s) for hx, s in mp.hashXs.items()}
    if got != inv:
        return 'the by-script-hash index is not the exact inverse of the transaction set'
    return None


def check_exact(mp, m):
    delta, summ, utx, spends, inverse = m.expected()
    if set(mp.txs) != set(m.pool):
        return f'{len(mp.txs)} transactions tracked, the daemon mempool has {len(m.pool)}'
    hxs = {coin.hashX_from_script(s) for s in m.scripts} | set(delta)
    for hx in hxs:
        if asyncio.run(mp.balance_delta(hx)) != delta.get(hx, 0):
            return f'balance delta of {hx.hex()} differs'
        got = {(s.hash, s.fee, s.has_unconfirmed_inputs) for s in asyncio.run(mp.transaction_summaries(hx))}
        if got != summ.get(hx, set()):
            return f'transaction summaries of {hx.hex()} differ (fee / has-unconfirmed-inputs / membership)'
        got = {(u.tx_hash, u.tx_pos, u.value) for u in asyncio.run(mp.unordered_UTXOs(hx))}
        if got != utx.get(hx, set()):
            return f'unconfirmed UTXOs of {hx.hex()} differ'
        if asyncio.run(mp.potential_spends(hx)) != spends.get(hx, set()):
            return f'potential spends of {hx.hex()} differ'
    return None


def run_one(seed, races):
    rnd = random.Random(seed)
    m = Model(rnd)
    mp = MemPool(coin, m)
    steps = []
    prev_inverse = {}
    dirty = False
    for step in range(rnd.randrange(4, 12)):
        op = rnd.choice(['add', 'add', 'add', 'chain', 'evict', 'confirm'])
        if op == 'add':
            for _ in range(rnd.randrange(1, 5)):
                m.add_tx()
        elif op == 'chain':
            for _ in range(rnd.randrange(3, 9)):
                m.add_tx()
        elif op == 'evict':
            m.evict()
        else:
            m.confirm()
        quiet = True
        if races and rnd.random() < 0.5:
            quiet = False
            m.drop_fetch = {t for t in m.pool if rnd.random() < 0.3}
            m.miss_lookup = rnd.choice([0.0, 0.3, 1.0])
        steps.append((op, 'quiet' if quiet else 'raced'))
        touched = set()
        try:
            asyncio.run(refresh(mp, m, touched))
        except BaseException as e:   # noqa
            return {'seed': seed, 'steps': steps}, f'the refresh raised {e!r}'
        m.drop_fetch, m.miss_lookup = set(), 0.0
        bad = check_inverse(mp)
        if bad:
            return {'seed': seed, 'steps': steps}, bad
        # every recorded transaction has the right inputs and fee, raced or not
        for t, tx in mp.txs.items():
            if t not in m.pool:
                continue
            real_ins = [o for o in m.pool[t][0] if o[0] != bytes(32)]
            want = [m.in_pair(o) for o in real_ins]
            if list(tx.in_pairs) != want:
                return {'seed': seed, 'steps': steps}, f'transaction {t.hex()[:16]} recorded with wrong input pairs'
        if quiet and not dirty:
            bad = check_exact(mp, m)
            if bad:
                return {'seed': seed, 'steps': steps}, bad
            _d, _s, _u, _p, inverse = m.expected()
            changed = {hx for hx in set(inverse) | set(prev_inverse) if inverse.get(hx, set()) != prev_inverse.get(hx, set())}
            if not changed <= touched:
                return {'seed': seed, 'steps': steps}, f'{len(changed - touched)} script hashes gained or lost a transaction but are not in the touched set'
            prev_inverse = inverse
            dirty = False
        elif quiet and dirty:
            bad = check_exact(mp, m)
            if bad:
                return {'seed': seed, 'steps': steps}, 'after the next quiet refresh: ' + bad
            _d, _s, _u, _p, prev_inverse = m.expected()
            dirty = False
        else:
            dirty = True
    return {'seed': seed, 'steps': steps}, None


def run_big(seed):
    '''More new transactions than one fetch batch (200): several long chains whose links fall into different batches in
    an arbitrary order, all arriving in one refresh; then one quiet refresh must be exact.'''
    rnd = random.Random(seed)
    m = Model(rnd)
    for i in range(30, 260):
        m.utxos[(dsha(b'c%d' % i), 0)] = (coin.hashX_from_script(rnd.choice(m.scripts)), rnd.randrange(1000, 100000))
    mp = MemPool(coin, m)
    # chains: each link spends the previous link's output 0
    for c in range(rnd.randrange(3, 7)):
        av = [op for op in m.utxos if op not in m.spent]
        op = rnd.choice(av)
        for link in range(rnd.randrange(5, 12)):
            outs = [(rnd.randrange(1, 500), rnd.choice(m.scripts))]
            ins = [op]
            if link and rnd.random() < 0.5:
                # a child with an in-mempool parent AND a confirmed input (its UTXO is looked up by the batch that fetched
                # the child, which may not be the batch that accepts it)
                extra = [x for x in m.utxos if x not in m.spent]
                if extra:
                    ins.append(rnd.choice(extra))
                    rnd.shuffle(ins)
            raw = ser(ins, outs)
            t = dsha(raw)
            m.pool[t] = (ins, outs, raw)
            m.spent.update(ins)
            op = (t, 0)
    while len(m.pool) < rnd.randrange(420, 640):
        av = [op for op in m.utxos if op not in m.spent]
        if not av:
            break
        op = rnd.choice(av)
        outs = [(rnd.randrange(1, 500), rnd.choice(m.scripts))]
        raw = ser([op], outs)
        m.pool[dsha(raw)] = ([op], outs, raw)
        m.spent.add(op)
    desc = {'seed': seed, 'scenario': 'big-refresh', 'transactions': len(m.pool)}
    touched = set()
    try:
        asyncio.run(refresh(mp, m, touched))
    except BaseException as e:   # noqa
        return desc, f'the refresh raised {e!r}'
    bad = check_inverse(mp) or check_exact(mp, m)
    return desc, bad


def main():
    req = json.loads(sys.stdin.read() or '{}')
    mode = req.get('mode') or ('c09' if 'c09' in (req.get('obligation') or '').lower() else 'c08')
    rounds = int(req.get('rounds') or 40)
    seed0 = int(req.get('seed') or 0) * 7919
    for i in range(rounds):
        try:
            if i % 8 == 7:
                desc, bad = guarded(run_big, seed0 + i)
            else:
                desc, bad = guarded(run_one, seed0 + i, mode == 'c09')
        except ScenarioHang:
            desc, bad = {'seed': seed0 + i}, 'the refresh did not finish within 120 s (normal: < 1 s)'
        except BaseException as e:   # noqa
            import traceback
            desc, bad = {'seed': seed0 + i}, f'scenario raised {e!r}: {traceback.format_exc()[-500:]}'
        if bad:
            print(json.dumps({'reproduced': True, 'input': desc, 'detail': bad, 'cases': i + 1}, default=repr))
            return
    print(json.dumps({'reproduced': False, 'detail': f'{rounds} mempool histories agree with the model', 'cases': rounds}))


if __name__ == '__main__':
    main()
