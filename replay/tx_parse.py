'''Native replay / bounded stand-in for C13 on the real electrumx.lib.tx and OnDiskBlock.
  * transactions with counts / script lengths on every varint width boundary, empty scripts, extreme values:
    parse -> fields, hash = double SHA-256 of exactly the consumed bytes, serialize(parse(b)) == b;
    every truncation of the buffer must fail (IndexError / struct.error), never yield a transaction
  * blocks streamed from disk: iter_txs yields exactly the transactions in order and iter_txs_reversed the exact
    reverse, for every chunk size from smaller than one transaction to larger than the block, including
    transactions larger than a chunk at any position
Request: {"obligation": name, "part": "tx"|"block"|None}.  Answer: {"reproduced": bool, ...}'''
import hashlib
import json
import os
import random
import struct
import sys
import tempfile

from electrumx.lib.tx import Deserializer
from electrumx.server.block_processor import OnDiskBlock


def dsha(b):
    return hashlib.sha256(hashlib.sha256(b).digest()).digest()


def varint(n):
    if n < 253:
        return bytes([n])
    if n < 65536:
        return b'\xfd' + struct.pack('<H', n)
    if n < 4294967296:
        return b'\xfe' + struct.pack('<I', n)
    return b'\xff' + struct.pack('<Q', n)


def ser(tx):
    version, ins, outs, locktime = tx
    b = struct.pack('<i', version) + varint(len(ins))
    for ph, pi, script, seq in ins:
        b += ph + struct.pack('<I', pi) + varint(len(script)) + script + struct.pack('<I', seq)
    b += varint(len(outs))
    for value, script in outs:
        b += struct.pack('<q', value) + varint(len(script)) + script
    return b + struct.pack('<I', locktime)


BOUNDS = [0, 1, 2, 252, 253, 254, 255, 256, 65535, 65536, 65537]


def gen_txs(rnd):
    for nin in (0, 1, 2, 253):
        for nout in (0, 1, 3, 252, 253):
            if nin * nout > 2000:
                continue
            ins = [(bytes([rnd.randrange(256)]) * 32, rnd.choice([0, 1, 0xffffffff]),
                    bytes(rnd.choice(BOUNDS[:5])), rnd.choice([0, 0xffffffff])) for _ in range(nin)]
            outs = [(rnd.choice([0, 1, 2 ** 63 - 1, -1, 21 * 10 ** 14]), bytes(rnd.choice(BOUNDS[:6]))) for _ in range(nout)]
            yield (rnd.choice([1, 2, -1, 2 ** 31 - 1]), ins, outs, rnd.choice([0, 1, 0xffffffff]))
    for L in BOUNDS:
        yield (1, [(bytes(32), 0xffffffff, b'\x51' * L, 0)], [(50, b'\x76' * L)], 0)


def check_tx():
    rnd = random.Random(5)
    n = 0
    for tx in gen_txs(rnd):
        raw = ser(tx)
        for prefix in (b'', b'\x00' * 7):
            buf = prefix + raw + b'\xaa\xbb'
            d = Deserializer(buf, start=len(prefix))
            try:
                got, h = d.read_tx_and_hash()
            except BaseException as e:   # noqa
                return {'reproduced': True, 'input': {'tx_bytes': len(raw)}, 'detail': f'parse raised {e!r}'}
            n += 1
            ins = [(bytes(i.prev_hash), i.prev_idx, bytes(i.script), i.sequence) for i in got.inputs]
            outs = [(o.value, bytes(o.pk_script)) for o in got.outputs]
            if (got.version, ins, outs, got.locktime) != tx or d.cursor != len(prefix) + len(raw):
                return {'reproduced': True, 'input': {'tx_bytes': len(raw)}, 'detail': 'parsed fields/cursor differ'}
            if h != dsha(raw):
                return {'reproduced': True, 'input': {'tx_bytes': len(raw)}, 'detail': 'hash is not the double SHA-256 of the consumed bytes'}
            if got.serialize() != raw:
                return {'reproduced': True, 'input': {'tx_bytes': len(raw)}, 'detail': 'serialize(parse(b)) != b'}
        step = 1 if len(raw) < 400 else max(1, len(raw) // 150)
        cuts = set(range(0, len(raw), step)) | {len(raw) - k for k in range(1, 10) if len(raw) - k >= 0}
        for L in sorted(cuts):
            try:
                Deserializer(raw[:L]).read_tx()
            except (IndexError, struct.error, AssertionError):
                continue
            except BaseException as e:   # noqa
                return {'reproduced': True, 'input': {'tx_bytes': len(raw), 'truncated_to': L}, 'detail': f'truncated parse raised {e!r}'}
            return {'reproduced': True, 'input': {'tx_bytes': len(raw), 'truncated_to': L},
                    'detail': 'parsing a truncated buffer yielded a transaction'}
    return {'reproduced': False, 'detail': f'{n} parses agree', 'cases': n}


def check_block():
    rnd = random.Random(9)
    d = tempfile.mkdtemp(prefix='vfblk')
    cwd = os.getcwd()
    os.chdir(d)
    os.makedirs('meta/blocks')
    n = 0
    try:
        shapes = [[60], [60, 60, 60], [700, 60, 60], [60, 700, 60], [60, 60, 700], [700, 700], [60] * 30,
                  [60] * 253, [60] * 300, [61, 3000, 62, 63, 2500, 64]]
        for sizes in shapes:
            txs = []
            for i, s in enumerate(sizes):
                script = bytes([i % 256]) * max(0, s - 60)
                txs.append((1, [(bytes([i % 256]) * 32, i, b'', 0)], [(i, script)], i))
            raws = [ser(t) for t in txs]
            header = bytes(range(80))
            blob = header + varint(len(txs)) + b''.join(raws)
            hex_hash = 'ab' * 32
            with open(OnDiskBlock.filename(hex_hash, 7), 'wb') as f:
                f.write(blob)
            vlen = len(varint(len(txs)))
            chunk_sizes = sorted({vlen, vlen + 1, 9, 10, 59, 60, 61, 100, 119, 120, 121, 500, 699, 700, 701, 1000,
                                  len(blob) - 81, len(blob) - 80, len(blob), len(blob) + 5, 25_000_000} - {0})
            for cs in chunk_sizes:
                if cs < vlen:
                    continue       # listed known finding KF-C13-1 is probed separately
                OnDiskBlock.chunk_size = cs
                want = [dsha(r) for r in raws]
                for direction in ('forward', 'reversed'):
                    n += 1
                    try:
                        with OnDiskBlock(hex_hash, 7, len(blob)) as blk:
                            it = blk.iter_txs() if direction == 'forward' else blk.iter_txs_reversed()
                            got = [h for _tx, h in it]
                    except BaseException as e:   # noqa
                        return {'reproduced': True, 'input': {'tx_sizes': [len(r) for r in raws][:12], 'chunk_size': cs, 'direction': direction},
                                'detail': f'streaming raised {e!r}'}
                    exp = want if direction == 'forward' else want[::-1]
                    if got != exp:
                        return {'reproduced': True, 'input': {'tx_sizes': [len(r) for r in raws][:12], 'chunk_size': cs, 'direction': direction},
                                'detail': f'{len(got)} transactions yielded, {len(exp)} expected, order/content differs'}
        return {'reproduced': False, 'detail': f'{n} (block, chunk size, direction) cases agree', 'cases': n}
    finally:
        OnDiskBlock.chunk_size = 25_000_000
        os.chdir(cwd)
        import shutil
        shutil.rmtree(d, ignore_errors=True)


def check_small_chunk():
    '''KF-C13-1: chunk smaller than the tx-count varint'''
    d = tempfile.mkdtemp(prefix='vfblk')
    cwd = os.getcwd()
    os.chdir(d)
    os.makedirs('meta/blocks')
    try:
        txs = [(1, [(bytes(32), i, b'', 0)], [(i, b'')], 0) for i in range(253)]
        blob = bytes(80) + varint(253) + b''.join(ser(t) for t in txs)
        with open(OnDiskBlock.filename('cd' * 32, 3), 'wb') as f:
            f.write(blob)
        OnDiskBlock.chunk_size = 2
        try:
            with OnDiskBlock('cd' * 32, 3, len(blob)) as blk:
                got = list(blk.iter_txs())
            ok = len(got) == 253
        except BaseException as e:   # noqa
            return {'reproduced': True, 'class': 'KF-C13-1', 'input': {'chunk_size': 2, 'tx_count': 253},
                    'detail': f'chunk smaller than the tx-count varint: {e!r}'}
        return {'reproduced': not ok, 'class': 'KF-C13-1', 'input': {'chunk_size': 2}, 'detail': 'wrong count'}
    finally:
        OnDiskBlock.chunk_size = 25_000_000
        os.chdir(cwd)
        import shutil
        shutil.rmtree(d, ignore_errors=True)


def main():
    req = json.loads(sys.stdin.read() or '{}')
    o = req.get('obligation') or ''
    part = req.get('part')
    if part == 'small-chunk':
        res = check_small_chunk()
    elif part == 'tx' or (part is None and ('tx.' in o and 'OnDiskBlock' not in o)):
        res = check_tx()
    elif part == 'block' or 'OnDiskBlock' in o:
        res = check_block()
    else:
        res = check_tx()
        if not res['reproduced']:
            res = check_block()
    print(json.dumps(res, default=repr))


if __name__ == '__main__':
    main()
