'''Native replay / counterexample search for C18 on the real Daemon class: every fault sequence up to length 5
over the fault alphabet x 1..3 URLs is played against Daemon._send (asyncio.sleep patched out); the call must
return the genuine answer of the first non-fault attempt, raise a genuine RPC error at once, fail over
round-robin exactly when the back-off is at its maximum, and keep the back-off within [init, max].'''
import asyncio
import itertools
import json
import sys

import aiohttp

from electrumx.server import daemon as Dm


class Coin:
    @staticmethod
    def sanitize_url(url):
        return url


FAULTS = {
    1: lambda: asyncio.TimeoutError(), 2: lambda: aiohttp.ServerDisconnectedError(), 3: lambda: ConnectionResetError(),
    4: lambda: aiohttp.ClientConnectionError(), 5: lambda: aiohttp.ClientPayloadError(),
    6: lambda: Dm.ServiceRefusedError('refused'), 7: lambda: Dm.WarmingUpError(),
}


async def play(script, nurls, end):
    d = Dm.Daemon(Coin(), ','.join(f'http://u:p@h{i}:8332/' for i in range(nurls)), init_retry=0.25, max_retry=1.0)
    sleeps = []

    async def fake_sleep(t):
        sleeps.append(t)
    Dm.asyncio.sleep = fake_sleep
    attempts = []

    async def func(tag):
        k = len(attempts)
        if k > len(script) + 2:
            raise RuntimeError('the call keeps retrying after the daemon answered')      # guard against endless retry
        attempts.append(d.url_index)
        ev = script[k] if k < len(script) else end
        if ev == 0:
            return ('genuine', d.url_index, k)
        if ev == 8:
            raise Dm.DaemonError({'code': -5, 'message': 'x'})
        raise FAULTS[ev]()
    try:
        res = await d._send(func, 'req')
        out = ('ok', res)
    except Dm.DaemonError:
        out = ('rpc_error', None)
    except RuntimeError as e:
        out = ('runaway', str(e))
    return out, attempts, sleeps, d


def check(script, nurls, end):
    out, attempts, sleeps, d = asyncio.run(play(script, nurls, end))
    q = len(script)
    if len(attempts) != q + 1:
        return f'{len(attempts)} attempts for {q} faults'
    if end == 0 and out != ('ok', ('genuine', attempts[-1], q)):
        return f'returned {out!r}, genuine answer is attempt {q} at url {attempts[-1]}'
    if end == 8 and out[0] != 'rpc_error':
        return f'genuine RPC error not raised: {out!r}'
    # back-off and fail-over bookkeeping
    retry, idx = 0.25, 0
    for i, s in enumerate(sleeps):
        if attempts[i] != idx:
            return f'attempt {i} went to url {attempts[i]}, round-robin expects {idx}'
        if retry == 1.0 and nurls > 1:
            idx = (idx + 1) % nurls
            retry = 0
        if s != retry:
            return f'sleep {i} was {s}, expected {retry}'
        retry = max(min(1.0, retry * 2), 0.25)
    if attempts[-1] != idx:
        return f'final attempt at url {attempts[-1]}, expected {idx}'
    return None


def main():
    req = json.loads(sys.stdin.read() or '{}')
    tried = 0
    for nurls in (1, 2, 3):
        for n in range(0, 6):
            for script in itertools.product((1, 2, 6, 7), repeat=n) if n > 3 else itertools.product(range(1, 8), repeat=n):
                for end in (0, 8):
                    tried += 1
                    bad = check(list(script), nurls, end)
                    if bad:
                        print(json.dumps({'reproduced': True, 'input': {'faults': list(script), 'urls': nurls, 'then': end},
                                          'detail': bad, 'tried': tried}))
                        return
    print(json.dumps({'reproduced': False, 'detail': f'{tried} fault scripts agree with the statement'}))


if __name__ == '__main__':
    main()
