'''Native replay / counterexample search for C18 on the real Daemon class: every fault sequence up to length 5
over the fault alphabet x 1..3 URLs is played against Daemon._send (asyncio.sleep patched out); the call must
return the genuine answer of the first non-fault attempt, raise a genuine RPC error at once, fail over
round-robin exactly when the back-off is at its maximum, and keep the back-off within [init, max].'''
import asyncio
import itertools
import json
import sys

import logging
logging.disable(logging.CRITICAL)

import aiohttp

from electrumx.server import daemon as Dm


class Coin:
    @staticmethod
    def sanitize_url(url):
        return url


FAULTS = {
    1: lambda: asyncio.TimeoutError(), 2: lambda: aiohttp.ServerDisconnectedError(), 3: lambda: ConnectionResetError(),
    4: lambda: aiohttp.ClientConnectionError(), 5: lambda: aiohttp.ClientPayloadError(),
    6: lambda: Dm.ServiceRefusedError('refused'), 7: lambda: Dm.WarmingUpError(),
}


async def play(script, nurls, end):
    d = Dm.Daemon(Coin(), ','.join(f'http://u:p@h{i}:8332/' for i in range(nurls)), init_retry=0.25, max_retry=1.0)
    sleeps = []

    async def fake_sleep(t):
        sleeps.append(t)
    Dm.asyncio.sleep = fake_sleep
    attempts = []

    async def func(tag):
        k = len(attempts)
        if k > len(script) + 2:
            raise RuntimeError('the call keeps retrying after the daemon answered')      # guard against endless retry
        attempts.append(d.url_index)
        ev = script[k] if k < len(script) else end
        if ev == 0:
            return ('genuine', d.url_index, k)
        if ev == 8:
            raise Dm.DaemonError({'code': -5, 'message': 'x'})
        raise FAULTS[ev]()
    try:
        res = await d._send(func, 'req')
        out = ('ok', res)
    except Dm.DaemonError:
        out = ('rpc_error', None)
    except RuntimeError as e:
        out = ('runaway', str(e))
    return out, attempts, sleeps, d


def check(script, nurls, end):
    out, attempts, sleeps, d = asyncio.run(play(script, nurls, end))
    q = len(script)
    if len(attempts) != q + 1:
        return f'{len(attempts)} attempts for {q} faults'
    if end == 0 and out != ('ok', ('genuine', attempts[-1], q)):
        return f'returned {out!r}, genuine answer is attempt {q} at url {attempts[-1]}'
    if end == 8 and out[0] != 'rpc_error':
        return f'genuine RPC error not raised: {out!r}'
    # back-off and fail-over bookkeeping
    retry, idx = 0.25, 0
    for i, s in enumerate(sleeps):
        if attempts[i] != idx:
            return f'attempt {i} went to url {attempts[i]}, round-robin expects {idx}'
        if retry == 1.0 and nurls > 1:
            idx = (idx + 1) % nurls
            retry = 0
        if s != retry:
            return f'sleep {i} was {s}, expected {retry}'
        retry = max(min(1.0, retry * 2), 0.25)
    if attempts[-1] != idx:
        return f'final attempt at url {attempts[-1]}, expected {idx}'
    return None


# ---- vector calls and block streaming through a scripted HTTP session ---------------------------------------------

class FakeContent:
    def __init__(self, chunks, fail_after):
        self.chunks, self.fail_after = chunks, fail_after

    async def iter_chunks(self):
        for i, c in enumerate(self.chunks):
            if self.fail_after is not None and i == self.fail_after:
                raise aiohttp.ClientPayloadError('stream broke')
            yield c, True
        if self.fail_after is not None and self.fail_after >= len(self.chunks):
            raise aiohttp.ClientPayloadError('stream broke')


class FakeResp:
    def __init__(self, kind, body=None, chunks=None, fail_after=None, text='busy'):
        self.headers = {'Content-Type': kind}
        self._body, self._text, self.reason = body, text, 'reason'
        self.content = FakeContent(chunks or [], fail_after)

    async def json(self):
        return self._body

    async def text(self):
        return self._text

    async def __aenter__(self):
        return self

    async def __aexit__(self, *a):
        return False


class FakeSession:
    '''replies: one entry per attempt: an exception instance (raised on entering the request) or a FakeResp factory
    taking the decoded request payload'''
    def __init__(self, replies):
        self.replies, self.k, self.requests = replies, 0, []

    def _next(self, payload):
        r = self.replies[min(self.k, len(self.replies) - 1)]
        self.k += 1
        self.requests.append(payload)
        if self.k > len(self.replies) + 2:
            raise RuntimeError('the call keeps retrying after the daemon answered')
        if isinstance(r, BaseException):
            raise r
        return r(payload)

    def post(self, url, data=None):
        return self._next(json.loads(data))

    def get(self, url):
        return self._next(url)


def make_daemon(replies):
    d = Dm.Daemon(Coin(), 'http://u:p@h0:8332/', init_retry=0.25, max_retry=1.0)
    d.session = FakeSession(replies)

    async def fake_sleep(t):
        pass
    Dm.asyncio.sleep = fake_sleep
    return d


def batch_reply(items):
    '''items: per request 'ok' | 'err' | 'warm'; the daemon answers in request order'''
    def f(payload):
        out = []
        for req, kind in zip(payload, items):
            if kind == 'ok':
                out.append({'result': ['answer-to', req['params']], 'error': None, 'id': req['id']})
            elif kind == 'err':
                out.append({'result': None, 'error': {'code': -5, 'message': 'no such tx'}, 'id': req['id']})
            else:
                out.append({'result': None, 'error': {'code': -28, 'message': 'warming up'}, 'id': req['id']})
        return FakeResp('application/json', body=out)
    return f


def check_vector(n, faults, first_kinds, final_kinds, replace_errs):
    '''a vector call of n requests: transient faults, then (optionally) a reply in which some items are still warming
    up, then the final reply'''
    replies = [FAULTS[f]() for f in faults]
    if first_kinds is not None:
        replies.append(batch_reply(first_kinds))
    replies.append(batch_reply(final_kinds))
    d = make_daemon(replies)
    params = [(f'p{i}', i) for i in range(n)]

    async def go():
        try:
            return ('ok', await d._send_vector('m', iter(params), replace_errs=replace_errs))
        except Dm.DaemonError as e:
            return ('rpc_error', e.args)
        except RuntimeError as e:
            return ('runaway', str(e))
    out = asyncio.run(go())
    if n == 0:
        return None if out == ('ok', []) else f'empty vector call returned {out!r}'
    warm_first = first_kinds is not None and 'warm' in first_kinds
    expect_attempts = len(faults) + (2 if first_kinds is not None and warm_first else 1)
    kinds = final_kinds if (first_kinds is None or warm_first) else first_kinds
    if d.session.k != expect_attempts:
        return f'{d.session.k} attempts, expected {expect_attempts} (a reply with warming-up items is not an answer)'
    has_err = 'err' in kinds
    if has_err and not replace_errs:
        return None if out[0] == 'rpc_error' else f'genuine RPC errors not raised: {out!r}'
    want = [['answer-to', [f'p{i}', i]] if k == 'ok' else None for i, k in enumerate(kinds)]
    if out != ('ok', want):
        return f'returned {out!r}, the aligned genuine answers are {want!r}'
    return None


def check_get_block(chunks_by_attempt, tmpdir):
    '''block-to-file streaming: attempts given as (chunks, fail_after | None | "refused"); the file must hold exactly the
    body of the attempt that succeeded'''
    import os
    replies = []
    for chunks, fail in chunks_by_attempt:
        if fail == 'refused':
            replies.append(lambda url, c=chunks: FakeResp('text/plain', text='Work queue depth exceeded'))
        else:
            replies.append(lambda url, c=chunks, f=fail: FakeResp('application/octet-stream', chunks=c, fail_after=f))
    d = make_daemon(replies)
    name = os.path.join(tmpdir, 'blk')

    async def go():
        try:
            return ('ok', await d.get_block('ab' * 32, name))
        except RuntimeError as e:
            return ('runaway', str(e))
    out = asyncio.run(go())
    body = b''.join(chunks_by_attempt[-1][0])
    with open(name, 'rb') as f:
        got = f.read()
    if out != ('ok', len(body)):
        return f'returned {out!r}, the block has {len(body)} bytes'
    if got != body:
        return f'the file holds {len(got)} bytes ({got[:24]!r}...), the daemon\'s block is {len(body)} bytes ({body[:24]!r}...)'
    return None


def check_failover_targets(kind, nurls):
    '''with several URLs every attempt of a call - single, vector and block streaming alike - goes to the daemon that is
    current at that attempt: the first daemon is down for good, the call must come back with the answer of another one and
    must have asked the URLs round-robin'''
    import os
    import tempfile
    import shutil
    urls = [f'http://u:p@h{i}:8332/' for i in range(nurls)]
    d = Dm.Daemon(Coin(), ','.join(urls), init_retry=0.25, max_retry=1.0)
    asked = []

    class PerUrl:
        def _reply(self, url, payload):
            host = url.split('@')[1].split(':')[0]
            asked.append(host)
            if len(asked) > 40:
                raise RuntimeError('the call keeps retrying the daemon that is down')
            if host == 'h0':
                raise aiohttp.ClientConnectionError('down')
            if kind == 'get_block':
                return FakeResp('application/octet-stream', chunks=[b'block-of-' + host.encode()])
            if isinstance(payload, list):
                return FakeResp('application/json', body=[{'result': host, 'error': None, 'id': r['id']} for r in payload])
            return FakeResp('application/json', body={'result': host, 'error': None, 'id': payload['id']})

        def post(self, url, data=None):
            return self._reply(url, json.loads(data))

        def get(self, url):
            return self._reply(url, None)
    d.session = PerUrl()

    async def fake_sleep(t):
        pass
    Dm.asyncio.sleep = fake_sleep
    tmp = tempfile.mkdtemp(prefix='verif-daemon-')
    try:
        async def go():
            try:
                if kind == 'get_block':
                    n = await d.get_block('ab' * 32, os.path.join(tmp, 'blk'))
                    return open(os.path.join(tmp, 'blk'), 'rb').read()[-2:].decode(), n
                if kind == 'vector':
                    return (await d._send_vector('m', iter([(1,), (2,)])))[0], None
                return await d._send_single('m'), None
            except RuntimeError as e:
                return 'runaway: ' + str(e), None
        got, _n = asyncio.run(go())
    finally:
        shutil.rmtree(tmp, ignore_errors=True)
    if got != 'h1':
        return f'{kind} with {nurls} URLs, first daemon down: the call ended with {got!r} after asking {asked[:12]}..., expected the answer of h1'
    if d.current_url() != urls[1]:
        return f'{kind}: answer came from h1 but current_url() is {d.current_url()!r}'
    return None


def search_vector_and_file():
    for kind in ('single', 'vector', 'get_block'):
        for nurls in (2, 3):
            bad = check_failover_targets(kind, nurls)
            if bad:
                return 1, {'call': kind, 'urls': nurls, 'first_daemon': 'down'}, bad
    import tempfile
    import shutil
    tried = 0
    for n in (0, 1, 2, 3):
        for faults in ([], [1], [7], [2, 6]):
            for final in itertools.product(('ok', 'err'), repeat=n):
                firsts = [None] + [f for f in itertools.product(('ok', 'err', 'warm'), repeat=n) if 'warm' in f]
                for first in firsts:
                    for replace in (False, True):
                        tried += 1
                        bad = check_vector(n, faults, first, list(final), replace)
                        if bad:
                            return tried, {'call': '_send_vector', 'requests': n, 'faults': faults, 'first_reply': first,
                                           'final_reply': list(final), 'replace_errs': replace}, bad
    tmp = tempfile.mkdtemp(prefix='verif-daemon-')
    try:
        A, B = [b'first-attempt-' * 3, b'more', b'tail-of-a-longer-body'], [b'blk', b'-data']
        for script in ([(B, None)], [(A, 1), (B, None)], [(A, 3), (B, None)], [(A, 'refused'), (B, None)],
                       [(A, 2), (A, 0), (B, None)], [(B, 1), (A, None)], [(A, 1), ([], None)]):
            tried += 1
            bad = check_get_block(script, tmp)
            if bad:
                return tried, {'call': 'get_block', 'attempts': [[len(c), f] for c, f in script]}, bad
    finally:
        shutil.rmtree(tmp, ignore_errors=True)
    return tried, None, None


def main():
    req = json.loads(sys.stdin.read() or '{}')
    tried, inp, bad = search_vector_and_file()
    if bad:
        print(json.dumps({'reproduced': True, 'input': inp, 'detail': bad, 'tried': tried}, default=repr))
        return
    for nurls in (1, 2, 3):
        for n in range(0, 6):
            for script in itertools.product((1, 2, 6, 7), repeat=n) if n > 3 else itertools.product(range(1, 8), repeat=n):
                for end in (0, 8):
                    tried += 1
                    bad = check(list(script), nurls, end)
                    if bad:
                        print(json.dumps({'reproduced': True, 'input': {'faults': list(script), 'urls': nurls, 'then': end},
                                          'detail': bad, 'tried': tried}))
                        return
    print(json.dumps({'reproduced': False, 'detail': f'{tried} fault scripts agree with the statement'}))


if __name__ == '__main__':
    main()
