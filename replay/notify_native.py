'''Native bounded stand-in / counterexample search for C07 at the session level: real ElectrumX session objects (created
without their transport) subscribe to script hashes; an independent model of "confirmed history + mempool summaries per
script hash" is evolved by random steps (mempool arrivals / evictions, blocks confirming a parent-closed part of the
mempool - which changes the has-unconfirmed-inputs flag of children whose script hash is NOT touched -, height-only
changes); after every step each session's real notify(touched, height_changed) is run with ONE shared touched set (as
SessionManager._notify_sessions does) and, at quiescence, the last status / header each client was told must equal the
true current one computed from the model.
Request: {"rounds": n, "seed": s}.'''
import asyncio
import json
import logging
import random
import sys
import types
from hashlib import sha256

logging.disable(logging.CRITICAL)

from electrumx.server import session as S           # noqa: E402
from electrumx.lib.hash import hash_to_hex_str      # noqa: E402
from _watchdog import guarded, ScenarioHang         # noqa: E402


class World:
    def __init__(self, rnd):
        self.rnd = rnd
        self.height = 100
        self.hashXs = [bytes([i]) * 11 for i in range(1, 9)]
        self.scripthash = {hx: sha256(hx).digest()[::-1].hex() for hx in self.hashXs}     # alias the client uses
        self.conf = {hx: [] for hx in self.hashXs}          # hashX -> [(tx_hash, height)]
        self.pool = {}                                      # tx_hash -> {'hx': set, 'parents': set}
        self.blocks = []                                    # per block since start: {tx_hash: tx} (for reorgs)
        self.n = 0

    def new_hash(self):
        self.n += 1
        return sha256(b'tx%d' % self.n).digest()

    def summaries(self, hx):
        out = []
        for t, tx in self.pool.items():
            if hx in tx['hx']:
                out.append(types.SimpleNamespace(hash=t, fee=0, size=100,
                                                 has_unconfirmed_inputs=any(p in self.pool for p in tx['parents'])))
        return out

    def status(self, hx):
        s = ''.join(f'{hash_to_hex_str(t)}:{h:d}:' for t, h in self.conf[hx])
        s += ''.join(f'{hash_to_hex_str(x.hash)}:{-x.has_unconfirmed_inputs:d}:' for x in self.summaries(hx))
        return sha256(s.encode()).digest().hex() if s else None

    # steps: each returns (touched, height_changed)
    def step_mempool_add(self):
        touched = set()
        for _ in range(self.rnd.randrange(1, 4)):
            hxs = set(self.rnd.sample(self.hashXs, self.rnd.randrange(1, 3)))
            parents = set(self.rnd.sample(sorted(self.pool), min(len(self.pool), self.rnd.randrange(0, 2))))
            self.pool[self.new_hash()] = {'hx': hxs, 'parents': parents}
            touched |= hxs
        return touched, False

    def step_mempool_evict(self):
        if not self.pool:
            return set(), False
        t = self.rnd.choice(sorted(self.pool))
        gone = {t}
        changed = True
        while changed:
            changed = False
            for u, tx in self.pool.items():
                if u not in gone and tx['parents'] & gone:
                    gone.add(u)
                    changed = True
        touched = set()
        for u in gone:
            touched |= self.pool.pop(u)['hx']
        return touched, False

    def step_block(self):
        '''confirms a parent-closed subset; only the script hashes of the confirmed transactions are touched'''
        self.height += 1
        take = set()
        for t in list(self.pool):
            if all(p not in self.pool or p in take for p in self.pool[t]['parents']) and self.rnd.random() < 0.5:
                take.add(t)
        touched = set()
        self.blocks.append({})
        for t in take:
            tx = self.pool.pop(t)
            self.blocks[-1][t] = tx
            for hx in tx['hx']:
                self.conf[hx].append((t, self.height))
            touched |= tx['hx']
        return touched, True

    def step_reorg(self):
        '''the last block is orphaned: its transactions are back in the mempool (the replacement blocks are empty), so
        mempool children of theirs have unconfirmed inputs again although their own script hashes are not touched'''
        if not self.blocks:
            return set(), False
        back = self.blocks.pop()
        touched = set()
        for t, tx in back.items():
            self.pool[t] = tx
            for hx in tx['hx']:
                self.conf[hx] = [(u, h) for u, h in self.conf[hx] if u != t]
            touched |= tx['hx']
        # the winning branch is longer (the server only reorganises onto a longer chain): two empty blocks replace the one
        self.blocks.append({})
        self.blocks.append({})
        self.height += 1
        return touched, True


def make_session(world, sent):
    s = S.ElectrumX.__new__(S.ElectrumX)
    env = types.SimpleNamespace(max_send=1000000, donation_address='', drop_client=None, coin=None)

    async def limited_history(hashX):
        return list(world.conf[hashX]), 0.1

    async def transaction_summaries(hashX):
        return world.summaries(hashX)

    sm = types.SimpleNamespace(env=env, limited_history=limited_history, hsub_results=None)
    s.session_mgr, s.env = sm, env
    s.mempool = types.SimpleNamespace(transaction_summaries=transaction_summaries)
    s.hashX_subs, s.mempool_statuses, s.subscribe_headers = {}, {}, False
    s.bump_cost = lambda delta: None
    s.logger = types.SimpleNamespace(info=lambda *a, **k: None, warning=lambda *a, **k: None, error=lambda *a, **k: None,
                                     exception=lambda *a, **k: sent.append(('exception', None)))

    async def send_notification(method, args):
        sent.append((method, args))
    s.send_notification = send_notification

    async def close(**kw):
        pass
    s.close = close
    return s


async def run_one(seed):
    rnd = random.Random(seed)
    w = World(rnd)
    sessions = []
    for k in range(rnd.randrange(1, 4)):
        sent = []
        s = make_session(w, sent)
        sessions.append({'s': s, 'sent': sent, 'view': {}, 'hdr': None})
    steps = []

    def hsub():
        return {'hex': '%064x' % w.height, 'height': w.height}

    for se in sessions:
        se['s'].session_mgr.hsub_results = hsub()
    for step in range(rnd.randrange(3, 10)):
        # subscriptions (answered from the current state)
        for se in sessions:
            if rnd.random() < 0.6:
                hx = rnd.choice(w.hashXs)
                alias = w.scripthash[hx]
                se['view'][alias] = await se['s'].hashX_subscribe(hx, alias)
            if rnd.random() < 0.3 and not se['s'].subscribe_headers:
                se['s'].subscribe_headers = True
                se['hdr'] = hsub()
        kind = rnd.choice(['add', 'add', 'evict', 'block', 'block', 'height', 'reorg'])
        if kind == 'add':
            touched, hc = w.step_mempool_add()
        elif kind == 'evict':
            touched, hc = w.step_mempool_evict()
        elif kind == 'block':
            touched, hc = w.step_block()
        elif kind == 'reorg':
            touched, hc = w.step_reorg()
        else:
            w.height += 1
            w.blocks.append({})
            touched, hc = set(), True
        steps.append((kind, len(touched), hc))
        for se in sessions:
            se['s'].session_mgr.hsub_results = hsub()
        shared = set(touched)            # one set object for all sessions
        for se in sessions:
            del se['sent'][:]
            await se['s'].notify(shared, hc)
            for method, args in se['sent']:
                if method == 'exception':
                    return {'seed': seed, 'steps': steps}, 'notify() swallowed an unexpected exception (logged): the client is not told'
                if method == 'blockchain.headers.subscribe':
                    se['hdr'] = args[0]
                elif method == 'blockchain.scripthash.subscribe':
                    se['view'][args[0]] = args[1]
        # quiescent: every client view must be the truth
        for i, se in enumerate(sessions):
            for hx, alias in se['s'].hashX_subs.items():
                truth = w.status(hx)
                if se['view'].get(alias) != truth:
                    return {'seed': seed, 'steps': steps, 'session': i, 'script_hash': alias}, \
                        (f'after step {len(steps)} ({kind}) client {i} still holds status {se["view"].get(alias)!r:.20} for a subscribed '
                         f'script hash whose true status is {truth!r:.20} (touched: {hx in touched})')
            if se['s'].subscribe_headers and se['hdr'] != hsub():
                return {'seed': seed, 'steps': steps, 'session': i}, \
                    f'client {i} subscribed to headers holds tip {se["hdr"]!r}, the tip is {hsub()!r}'
    return {'seed': seed, 'steps': steps}, None


def main():
    req = json.loads(sys.stdin.read() or '{}')
    rounds = int(req.get('rounds') or 300)
    seed0 = int(req.get('seed') or 0) * 104729
    for i in range(rounds):
        try:
            desc, bad = guarded(lambda sd: asyncio.run(run_one(sd)), seed0 + i)
        except ScenarioHang:
            desc, bad = {'seed': seed0 + i}, 'the notification did not finish within 120 s'
        except BaseException as e:   # noqa
            import traceback
            desc, bad = {'seed': seed0 + i}, f'scenario raised {e!r}: {traceback.format_exc()[-500:]}'
        if bad:
            print(json.dumps({'reproduced': True, 'input': desc, 'detail': bad, 'cases': i + 1}, default=repr))
            return
    print(json.dumps({'reproduced': False, 'detail': f'{rounds} notification histories leave every client with the true status and tip',
                      'cases': rounds}))


if __name__ == '__main__':
    main()
