'''Shared class descriptions of the index objects: DB, ChainState, History, Env (fields only; the
contracts live in the per-property files).'''
from pyvc.dsl import *
from pyvc.builtins import KJ, KBytes, KStr

DBK = 'electrumx/server/db.py:DB'
HIST = 'electrumx/server/history.py:History'
KV = 'ext:KV'


def register(reg):
    reg.cls('ext:DBEnv', fields={'reorg_limit': Int}, inv=[('reorg-limit', 'self.reorg_limit >= 1')])
    reg.cls('ext:DBState', fields={'height': Int, 'tx_count': Int, 'chain_size': Int, 'utxo_count': Int,
                                   'flush_count': Int, 'tip': KBytes},
            inv=[('height', 'self.height >= -1')])
    reg.cls(HIST, fields={'db': Obj(KV), 'flush_count': Int, 'comp_flush_count': Int, 'comp_cursor': Int,
                          'unflushed': Dict(KBytes, KBytes, default=b''), 'unflushed_count': Int, 'max_hist_row_entries': Int,
                          'db_version': Int, 'upgrade_cursor': Int})
    reg.cls(DBK, fields={'env': Obj('ext:DBEnv'), 'state': Obj('ext:DBState'), 'utxo_db': Obj(KV),
                         'history': Obj(HIST), 'fs_height': Int, 'fs_tx_count': Int, 'tx_counts': List(Int)})
