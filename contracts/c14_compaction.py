'''C14 - history compaction never changes any script hash's history (electrumx/server/history.py).

Deductive part: the batch discipline of one compaction pass and of start-up scrubbing.
  _flush_compaction(cursor, write_items, keys_to_delete): one atomic batch - deletes first, then puts (a key that is in
      both collections ends up written), then the state record; counter transitions at completion (cursor 65536).
  write_state(batch): the state record is a function of the five counters.
  clear_excess(n): rows whose flush id exceeds n are removed, all others and their values are untouched.
  _cancel_compaction(): an abandoned compaction is forgotten on a normal start.
hrow/hstate are spec functions for the key layout; fid(k) = big-endian 16-bit id in the last two key bytes.
'''
from pyvc.dsl import *
from pyvc.builtins import KJ, KBytes, KStr

HIST = 'electrumx/server/history.py:History'
BATCH = 'ext:Batch'


def register(reg):
    reg.specfun('hstate', [Int, Int, Int, Int, Int], KBytes)
    reg.specfun('fid', [KBytes], Int)
    reg.globals_['STATEKEY'] = b'state\x00\x00'
    from pyvc.engine import VKind
    reg.globals_['DictBytesInt'] = VKind(Dict(KBytes, Int))
    HS = 'hstate(self.flush_count, self.comp_flush_count, self.comp_cursor, self.db_version, self.upgrade_cursor)'
    reg.contract(HIST + '.write_state', params={'batch': Obj(BATCH)}, raises={}, modifies=['batch.g_ops'],
                 ensures=[('state-record', 'batch.g_ops == store(old(batch.g_ops), STATEKEY, ' + HS + ')')],
                 trusted='A-CALLEE: History.write_state puts repr() of the five counters under b"state\\\\0\\\\0" '
                         '(T-STR: repr/encode of a dict of ints is a function of the ints)')
    reg.contract(HIST + '._cancel_compaction', params={}, raises={},
                 ensures=[('forgotten', 'self.comp_cursor == -1 and (old(self.comp_cursor) == -1 or self.comp_flush_count == -1)'),
                          ('flush-count-kept', 'self.flush_count == old(self.flush_count)')],
                 props=['C14'])

    WK = 'exists(lambda j=Int: 0 <= j and j < len(write_items) and write_items[j][0] == k)'
    reg.contract(
        HIST + '._flush_compaction',
        params={'cursor': Int, 'write_items': List(Tuple(KBytes, KBytes)), 'keys_to_delete': Set(KBytes)},
        requires=[('state-key-not-a-row', 'STATEKEY not in keys_to_delete and '
                                          'forall(lambda j=Int: implies(0 <= j and j < len(write_items), write_items[j][0] != STATEKEY))')],
        raises={}, modifies=['self.db.g_map'],
        ensures=[
            ('completion', 'implies(cursor == 65536, self.flush_count == old(self.comp_flush_count) and '
                           'self.comp_cursor == -1 and self.comp_flush_count == -1)'),
            ('progress', 'implies(cursor != 65536, self.comp_cursor == cursor and self.flush_count == old(self.flush_count) '
                         'and self.comp_flush_count == old(self.comp_flush_count))'),
            # delete first, then put: a reused key is present afterwards with (one of) its written value(s)
            ('written', 'forall(lambda k=Bytes: implies(' + WK + ', k in self.db.g_map and '
                        'exists(lambda j=Int: 0 <= j and j < len(write_items) and write_items[j][0] == k and '
                        'write_items[j][1] == lookup(self.db.g_map, k))))'),
            ('deleted', 'forall(lambda k=Bytes: implies(k in keys_to_delete and not ' + WK + ', k not in self.db.g_map))'),
            ('untouched', 'forall(lambda k=Bytes: implies(k not in keys_to_delete and not ' + WK + ' and k != STATEKEY, '
                          '(k in self.db.g_map) == (k in old(self.db.g_map)) and implies(k in self.db.g_map, '
                          'lookup(self.db.g_map, k) == lookup(old(self.db.g_map), k))))'),
            ('state-record', 'STATEKEY in self.db.g_map and lookup(self.db.g_map, STATEKEY) == ' + HS),
        ],
        loops={
            0: LoopSpec('for key in keys_to_delete',
                        invariants=[('deletes', 'forall(lambda k=Bytes: (k in batch.g_ops) == (k in _done)) and '
                                                'forall(lambda k=Bytes: implies(k in batch.g_ops, is_none(lookup(batch.g_ops, k))))')],
                        modifies=['batch.g_ops']),
            1: LoopSpec('for key, value in write_items',
                        invariants=[
                            ('ops', 'forall(lambda k=Bytes: (k in batch.g_ops) == (k in keys_to_delete or '
                                    'exists(lambda j=Int: 0 <= j and j < _i and write_items[j][0] == k)))'),
                            ('puts', 'forall(lambda k=Bytes: implies(exists(lambda j=Int: 0 <= j and j < _i and write_items[j][0] == k), '
                                     'k in batch.g_ops and not is_none(lookup(batch.g_ops, k)) and '
                                     'exists(lambda j=Int: 0 <= j and j < _i and write_items[j][0] == k and '
                                     'write_items[j][1] == some(lookup(batch.g_ops, k)))))'),
                            ('dels', 'forall(lambda k=Bytes: implies(k in keys_to_delete and '
                                     'not exists(lambda j=Int: 0 <= j and j < _i and write_items[j][0] == k), '
                                     'k in batch.g_ops and is_none(lookup(batch.g_ops, k))))'),
                        ],
                        modifies=['batch.g_ops']),
        },
        portfolio=True, props=['C14'])

    LAYOUT = 'forall(lambda k=Bytes: implies(k in self.db.g_map, len(k) >= 2 and fid(k) == beu_dec(k[len(k) - 2:len(k)])))'
    reg.contract(
        HIST + '.clear_excess', params={'utxo_flush_count': Int},
        requires=[('key-layout', LAYOUT), ('state-row-id', 'fid(STATEKEY) == 0'), ('count', 'utxo_flush_count >= 0')],
        raises={}, modifies=['self.db.g_map', 'self.flush_count'],
        locals={'keys': List(KBytes)},
        ensures=[
            ('noop-when-not-ahead', 'implies(old(self.flush_count) <= utxo_flush_count, self.db.g_map == old(self.db.g_map) '
                                    'and self.flush_count == old(self.flush_count))'),
            ('excess-removed', 'implies(old(self.flush_count) > utxo_flush_count, self.flush_count == utxo_flush_count and '
                               'forall(lambda k=Bytes: implies(k in self.db.g_map and k != STATEKEY, fid(k) <= utxo_flush_count)))'),
            ('no-new-rows', 'forall(lambda k=Bytes: implies(k in self.db.g_map, k in old(self.db.g_map) or k == STATEKEY))'),
            ('others-kept', 'forall(lambda k=Bytes: implies(k in old(self.db.g_map) and fid(k) <= utxo_flush_count and k != STATEKEY, '
                            'k in self.db.g_map and lookup(self.db.g_map, k) == lookup(old(self.db.g_map), k)))'),
        ],
        ghost={('after', 'keys = []'): ['kset = empty(Bytes)', 'kpos = fresh(DictBytesInt)'],
               ('after', 'keys.append(key)'): ['kset = add(kset, key)', 'kpos = store(kpos, key, len(keys) - 1)']},
        loops={
            0: LoopSpec("for key, _hist in self.db.iterator(prefix=b'')",
                        invariants=[
                            ('excess', 'forall(lambda k=Bytes: implies(k in kset, k in self.db.g_map and fid(k) > utxo_flush_count and '
                                       '0 <= lookup(kpos, k) and lookup(kpos, k) < len(keys) and keys[lookup(kpos, k)] == k))'),
                            ('listed', 'forall(lambda j=Int: implies(0 <= j and j < len(keys), keys[j] in kset))'),
                            ('complete', 'forall(lambda k=Bytes: implies(k in self.db.g_map and lookup(g_pos, k) < _i and '
                                         'fid(k) > utxo_flush_count, k in kset))'),
                        ],
                        modifies=['keys', 'kset', 'kpos']),
            1: LoopSpec('for key in keys',
                        invariants=[('done', 'forall(lambda j=Int: implies(0 <= j and j < _i, keys[j] in batch.g_ops))'),
                                    ('only', 'forall(lambda k=Bytes: implies(k in batch.g_ops, k in kset and is_none(lookup(batch.g_ops, k))))')],
                        modifies=['batch.g_ops']),
        },
        portfolio=True, props=['C14', 'C04', 'C05'])
