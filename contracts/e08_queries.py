'''C08 - the mempool query functions report only what the tracked transactions say (soundness of the view's contents).

Under the tracker invariant (every hash the by-script-hash index names is a tracked, accepted transaction):
  transaction_summaries(x)   one summary per transaction of x's set: its hash, ITS fee, and has-unconfirmed-inputs computed NOW
                             from the current transaction set (true iff one of its prevouts names a tracked transaction);
  unordered_UTXOs(x)         every reported UTXO is an output of a transaction of x's set that pays to x, at its own position,
                             with its value, height 0 and tx number -1;
Completeness (nothing missing, balances as sums) is the bounded stand-in.
'''
from pyvc.dsl import *
from pyvc.builtins import KJ, KBytes, KStr
from contracts.c08_mempool import MP, PAIR, MTX


def register(reg):
    INSET = 'hashX in self.hashXs and {h} in lookup(self.hashXs, hashX)'
    c = reg.contracts[MP + '.transaction_summaries']
    S = ('forall(lambda k=Int: implies(0 <= k and k < len(result), ' + INSET.format(h='result[k][0]') + ' and '
         'result[k][1] == lookup(self.txs, result[k][0]).fee))')
    c.ensures += [('one-summary-per-transaction-of-the-set-with-its-fee', S)]
    c.loops[0].invariants.append(('summaries-so-far', S))
    c.ghost[('before', 'result.append(MemPoolTxSummary(tx_hash, tx.fee, has_ui))')] = [
        'check("has-unconfirmed-inputs-is-computed-now-from-the-current-transaction-set", '
        'truthy(has_ui) == exists(lambda j=Int: 0 <= j and j < len(tx.prevouts) and tx.prevouts[j][0] in self.txs))']

    U = ('forall(lambda k=Int: implies(0 <= k and k < len({L}), ' + INSET.format(h='{L}[k][2]') + ' and {L}[k][0] == -1 and {L}[k][3] == 0 and '
         '0 <= {L}[k][1] and {L}[k][1] < len(lookup(self.txs, {L}[k][2]).out_pairs) and '
         'lookup(self.txs, {L}[k][2]).out_pairs[{L}[k][1]][0] == hashX and '
         'lookup(self.txs, {L}[k][2]).out_pairs[{L}[k][1]][1] == {L}[k][4]))')
    c = reg.contracts[MP + '.unordered_UTXOs']
    c.ensures += [('every-reported-utxo-is-an-output-paying-to-the-script-hash', U.format(L='result'))]
    c.loops[0].invariants.append(('sound-so-far', U.format(L='utxos')))
    c.loops[1].invariants.append(('sound-so-far', U.format(L='utxos')))
