'''C03 / C15 - BlockProcessor.backup_block: the bookkeeping skeleton of undoing the tip block.

Proved for every block:
  * refused with ChainError exactly when there is no undo row for the block's height, before anything is changed;
  * rule: outputs are classified with the post-genesis rule exactly when block.height >= GENESIS_ACTIVATION - the same test
    advance_block uses, so both directions classify every output alike (an output that was never stored is not "spent");
  * undo information is consumed from its END, one 24-byte entry (hashX 11 + tx number 5 + value 8) per restored input, the
    entry restored for the j-th restored input being bytes [len - 24 (j + 1), len - 24 j); a normal return has consumed it all;
  * counts: state.utxo_count changes by (inputs restored) - (outputs spent) as counted at the very statements that restore and
    spend; state.tx_count drops by the number of transactions; height - 1; tip = the header's previous hash; chain size minus
    the block size; the last tx_counts entry is dropped; then flush_backup is called.
NOT decided here (bounded stand-in of C03): that transactions and inputs are visited in exactly the reverse of the order in
which advance_block spent them (iter_txs_reversed / reversed(tx.inputs): the loop headers are pinned by the loop contracts),
and which cache entries / touched script hashes result.
'''
from pyvc.dsl import *
from pyvc.builtins import KJ, KBytes, KStr
from contracts.e20_advance_block import TX, TXIN, TXOUT

BP = 'electrumx/server/block_processor.py:BlockProcessor'
DBK = 'electrumx/server/db.py:DB'
FD = 'ext:FlushData'


def register(reg):
    ib = reg.classes['ext:IndexBlock']
    ib.ghost['g_txs_rev'] = List(Tuple(TX, KBytes))
    ib.methods['iter_txs_reversed'] = 'ext:IndexBlock.iter_txs_reversed'
    reg.contract('ext:IndexBlock.iter_txs_reversed', params={'self': Obj('ext:IndexBlock')}, returns=List(Tuple(TX, KBytes)),
                 ensures=['result == self.g_txs_rev', 'len(self.g_txs_rev) == len(self.g_txs)'], assumes_inv=False, maintains_inv=False,
                 trusted='A-CALLEE: OnDiskBlock.iter_txs_reversed yields the pairs of iter_txs in reverse order (C13: bounded for chunking)')
    reg.contract(BP + '.flush_data', params={}, returns=Obj(FD), raises={}, assumes_inv=False, maintains_inv=False,
                 trusted='A-CALLEE: BlockProcessor.flush_data packs the unflushed state into a FlushData record')
    reg.contract(DBK + '.assert_flushed', params={'flush_data': Obj(FD)}, raises={'AssertionError': []}, assumes_inv=False, maintains_inv=False,
                 trusted='A-CALLEE: DB.assert_flushed only asserts')
    spend_view = Contract(BP + '.spend_utxo', params={'tx_hash': KBytes, 'tx_idx': Int}, returns=KBytes,
                          raises={'ChainError': []}, modifies=['self.utxo_cache', 'self.db_deletes', 'self.g_spent'],
                          assumes_inv=False, maintains_inv=False, ensures=['self.g_spent == old(self.g_spent) + 1'],
                          trusted='the output exists in the index (it was stored when the block was indexed); only "one output spent per '
                                  'call" is used')
    fb_view = Contract(DBK + '.flush_backup', params={'flush_data': Obj(FD), 'touched': Set(KBytes)}, raises={'AssertionError': []},
                       modifies=['self.utxo_db.g_map', 'self.utxo_db.g_commits', 'self.history.db.g_map', 'self.history.db.g_commits', 'self.state'],
                       assumes_inv=False, maintains_inv=False,
                       trusted='commit order and state of flush_backup proved separately (d04); here only that it is called last')
    UKEY = 'concat(b"U", beu_enc(block.height, 4))'
    COUNTS = ('utxo_count_delta == self.g_put - self.g_spent and n == len(some_undo) - 24 * self.g_put and '
              'self.g_put >= 0 and self.g_spent >= 0')
    reg.contract(
        BP + '.backup_block', params={'block': Obj('ext:IndexBlock')},
        requires=[('height', '0 <= block.height and block.height < 4294967296'), ('counters', 'self.g_put == 0 and self.g_spent == 0'),
                  ('a-block-is-indexed', 'len(self.db.tx_counts) >= 1'), ('consistent-on-entry', 'self.ok'),
                  ('input-fields-fit', 'forall(lambda t=Int: implies(0 <= t and t < len(block.g_txs_rev), '
                                       'forall(lambda i=Int: implies(0 <= i and i < len(block.g_txs_rev[t][0].inputs), '
                                       '0 <= block.g_txs_rev[t][0].inputs[i].prev_idx and block.g_txs_rev[t][0].inputs[i].prev_idx < 4294967296))))')],
        raises={'ChainError': [], 'AssertionError': []}, assumes_inv=False, maintains_inv=False,
        modifies=['self.state.height', 'self.state.tip', 'self.state.chain_size', 'self.state.utxo_count', 'self.state.tx_count',
                  'self.utxo_cache', 'self.db_deletes', 'self.touched', 'self.ok', 'self.db.tx_counts', 'self.g_put', 'self.g_spent',
                  'self.db.utxo_db.g_map', 'self.db.utxo_db.g_commits', 'self.db.history.db.g_map', 'self.db.history.db.g_commits', 'self.db.state'],
        views={BP + '.spend_utxo': spend_view, DBK + '.flush_backup': fb_view},
        locals={'some_undo': KBytes},
        ghost={
            ('after', 'is_unspendable = *'):
                ['check("same-rule-as-when-the-block-was-indexed", '
                 'fn_is(is_unspendable, "is_unspendable_genesis") == (block.height >= self.coin.GENESIS_ACTIVATION) and '
                 'fn_is(is_unspendable, "is_unspendable_legacy") == (block.height < self.coin.GENESIS_ACTIVATION))'],
            ('after', 'n = len(undo_info)'): ['some_undo = undo_info'],
            ('after', 'undo_item = undo_info[n:n + undo_entry_len]'):
                ['check("entries-consumed-from-the-end-one-per-restored-input", n == len(some_undo) - 24 * (self.g_put + 1) and '
                 'implies(n >= 0, undo_item == some_undo[len(some_undo) - 24 * (self.g_put + 1):len(some_undo) - 24 * self.g_put]))'],
            ('after', 'put_utxo(bytes(txin.prev_hash) + pack_le_uint32(txin.prev_idx), undo_item)'):
                ['check("restored-under-the-outpoint-the-input-spent", '
                 'lookup(self.utxo_cache, txin.prev_hash + leu_enc(txin.prev_idx, 4)) == undo_item and '
                 'implies(n >= 0, len(undo_item) == 24))',
                 'self.g_put = self.g_put + 1'],
            ('before', 'self.db.flush_backup(self.flush_data(), self.touched)'):
                ['check("state-moved-back-before-the-flush", self.state.height == old(self.state.height) - 1 and '
                 'self.state.tip == hdr_prev(block.header) and self.state.tx_count == old(self.state.tx_count) - len(block.g_txs) and '
                 'self.state.utxo_count == old(self.state.utxo_count) + self.g_put - self.g_spent and '
                 'self.state.chain_size == old(self.state.chain_size) - block.size and '
                 'len(self.db.tx_counts) == len(old(self.db.tx_counts)) - 1 and len(some_undo) == 24 * self.g_put)'],
        },
        ensures=[('undone', 'self.state.height == old(self.state.height) - 1 and self.state.tip == hdr_prev(block.header) and self.ok')],
        loops={
            0: LoopSpec('for tx, tx_hash in block.iter_txs_reversed()',
                        invariants=[('counts', COUNTS), ('transactions', 'count == _i'),
                                    ('state-untouched-so-far', 'self.state.height == old(self.state.height) and self.state.tx_count == old(self.state.tx_count) and '
                                                               'self.state.utxo_count == old(self.state.utxo_count) and self.state.chain_size == old(self.state.chain_size) and '
                                                               'len(self.db.tx_counts) == len(old(self.db.tx_counts))')],
                        modifies=['self.utxo_cache', 'self.db_deletes', 'self.touched', 'self.g_put', 'self.g_spent']),
            1: LoopSpec('for idx, txout in enumerate(tx.outputs)', invariants=[('counts', COUNTS)],
                        modifies=['self.utxo_cache', 'self.db_deletes', 'self.touched', 'self.g_spent']),
            2: LoopSpec('for txin in reversed(tx.inputs)', invariants=[('counts', COUNTS)],
                        modifies=['self.utxo_cache', 'self.touched', 'self.g_put']),
        },
        props=['C03', 'C15'])
    c = reg.contracts[BP + '.backup_block']
    # refused only when the undo row of that height is missing (an EMPTY row - a block that spent nothing - is a row), or by
    # spend_utxo for an output that is not in the index
    c.raises['ChainError'] = ['(' + UKEY + ' not in old(self.db.utxo_db.g_map)) or not self.ok']
