'''C17 - replies stay within the advertised size limits.

  * blockchain.block.headers: count returned = max(0, min(requested, 2016, height + 1 - start)),
    hex is exactly that many headers, max = 2016.
  * history limit: SessionManager.limited_history returns the complete confirmed history when it has
    fewer than limit = max_send // 99 entries and raises the 'history too large' RPCError otherwise -
    from the database and from its cache alike; a subscription whose status cannot be computed is dropped.
hist_of(hashX) is the full confirmed history (a specification function; C02 relates it to the chain).
'''
from pyvc.dsl import *
from pyvc.builtins import KJ, KBytes, KStr

S = 'electrumx/server/session.py:'
EX = S + 'ElectrumX'
SM = S + 'SessionManager'
DBK = 'electrumx/server/db.py:DB'
HIST = List(Tuple(KBytes, Int))


def register(reg):
    reg.specfun('hist_of', [KBytes], HIST)
    LIMIT = 'div(self.env.max_send, 99)'

    # the history cache remembers either a complete history or the too-large failure
    sm = reg.classes[SM]
    sm.fields['_history_cache'] = Dict(KBytes, ExcOr(HIST, 'RPCError'))
    sm.fields['_history_lookups'] = Int
    sm.fields['_history_hits'] = Int
    sm.inv.append(('cache-coherent',
                   'forall(lambda k=Bytes: implies(k in self._history_cache,'
                   ' ite(is_err(lookup(self._history_cache, k)), len(hist_of(k)) >= ' + LIMIT + ','
                   ' len(hist_of(k)) < ' + LIMIT + ' and okval(lookup(self._history_cache, k)) == hist_of(k))))'))

    reg.contract(DBK + '.limited_history', params={'hashX': KBytes, 'limit': Int}, returns=HIST,
                 requires=['limit >= 0'],
                 ensures=['len(result) == min(limit, len(hist_of(hashX)))',
                          'forall(lambda j=Int: implies(0 <= j and j < len(result), result[j] == hist_of(hashX)[j]))'],
                 trusted='A-CALLEE: DB.limited_history(hashX, limit) returns the first `limit` entries of the confirmed '
                         'history (verified under C02)')

    # overrides the assumed contract used by the C16 handlers
    reg.contract(SM + '.limited_history', params={'hashX': KBytes}, returns=Tuple(HIST, Real),
                 raises={'RPCError': ['len(hist_of(hashX)) >= ' + LIMIT]},
                 modifies=['self._history_cache', 'self._history_lookups', 'self._history_hits'],
                 ensures=[('complete', 'result[0] == hist_of(hashX)'),
                          ('fits', 'len(result[0]) < ' + LIMIT)],
                 props=['C17'])

    ex = reg.classes[EX]
    ex.inv.append(('limit-floor', 'self.session_mgr.env.max_send >= 350000'))

    MS = Tuple(KBytes, Int, Bool, fields=['hash', 'fee', 'has_unconfirmed_inputs'], tname='MemPoolTxSummary')
    reg.contract('ext:MemPool.transaction_summaries', params={'self': Obj('ext:MemPool'), 'hashX': KBytes}, returns=List(MS),
                 assumes_inv=False, maintains_inv=False,
                 trusted='A-CALLEE: MemPool.transaction_summaries is total (verified under C08)')
    reg.classes['ext:MemPool'].methods['transaction_summaries'] = 'ext:MemPool.transaction_summaries'
    reg.contract('electrumx/lib/hash.py:sha256', params={'x': KBytes}, returns=KBytes, ensures=['len(result) == 32'],
                 trusted='T-HASH: hashlib.sha256 is a function of its input with a 32-byte result')

    TOO_LARGE = 'len(hist_of(hashX)) >= div(self.session_mgr.env.max_send, 99)'
    SUBS_FRAME = 'self.hashX_subs == old(self.hashX_subs)'
    reg.contract(EX + '.address_status', params={'hashX': KBytes}, returns=Opt(KStr),
                 raises={'RPCError': [TOO_LARGE, SUBS_FRAME, 'self.mempool_statuses == old(self.mempool_statuses)'],
                         'ExcessiveSessionCostError': [SUBS_FRAME]},
                 modifies=['self.mempool_statuses'],
                 ensures=[('fits', 'not (' + TOO_LARGE + ')'), ('subs', SUBS_FRAME)],
                 props=['C17'])
    reg.contract(EX + '.hashX_subscribe', params={'hashX': KBytes, 'alias': KJ}, returns=Opt(KStr),
                 raises={'RPCError': [TOO_LARGE, SUBS_FRAME], 'ExcessiveSessionCostError': [SUBS_FRAME]},
                 modifies=['self.hashX_subs', 'self.mempool_statuses'],
                 ensures=[('fits', 'not (' + TOO_LARGE + ')'), ('stored', 'hashX in self.hashX_subs')],
                 props=['C17'])
    reg.contract(EX + '.subscription_address_status', params={'hashX': KBytes}, returns=Opt(KStr),
                 raises={'ExcessiveSessionCostError': []},
                 modifies=['self.hashX_subs', 'self.mempool_statuses'],
                 ensures=[('dropped-when-too-large',
                           'implies(' + TOO_LARGE + ', hashX not in self.hashX_subs and hashX not in self.mempool_statuses'
                           ' and is_none(result))'),
                          ('kept-otherwise', 'implies(not (' + TOO_LARGE + '), self.hashX_subs == old(self.hashX_subs))')],
                 props=['C17'])

    # blockchain.block.headers: the C16 contract (escape set + frame) plus the size formula
    c = reg.contracts[EX + '.block_headers']
    c.props.append('C17')
    c.returns = None
    c.ghost[('after', 'count = non_negative_integer(count)')] = ['req_count = count']
    c.ensures += [
        ('cap', 'result["count"] <= 2016 and result["max"] == 2016'),
        ('count', 'result["count"] == max(0, min(req_count, 2016, self.db.state.height + 1 - start_height))'),
        ('hex', 'len(result["hex"]) == 160 * result["count"]'),
    ]
