'''C01 / C03 / C04 - the index: deductive parts on the small functions the three properties rest on.

C01  script.is_unspendable_legacy / is_unspendable_genesis equal the activation rule of the statement;
     DB.fs_tx_hash returns the true height of a transaction number (bisect on the cumulative counts).
C04  DB.flush_fs / History.flush write only at or above the committed extent / only rows with a fresh flush id, so a crash
     before the UTXO commit leaves the committed index readable (clear_excess: C14 contract).
C03  DB.backup_fs moves the file pointers only; BlockProcessor._calc_reorg_range arithmetic (forced reorg).
The whole-index statements are exercised by the bounded stand-in (replay/index_scenario.py).
'''
from pyvc.dsl import *
from pyvc.builtins import KJ, KBytes, KStr

DBK = 'electrumx/server/db.py:DB'
HIST = 'electrumx/server/history.py:History'
SC = 'electrumx/lib/script.py:'
LF = 'ext:LogicalFile'


def register(reg):
    reg.globals_['OP_FALSE_RETURN'] = b'\x00\x6a'
    reg.contract(SC + 'is_unspendable_genesis', params={'script': KBytes}, raises={},
                 ensures=[('rule', 'truthy(result) == (len(script) >= 2 and script[0] == 0 and script[1] == 106)')],
                 portfolio=True, props=['C01'])
    reg.contract(SC + 'is_unspendable_legacy', params={'script': KBytes}, raises={},
                 ensures=[('rule', 'truthy(result) == ((len(script) >= 2 and script[0] == 0 and script[1] == 106) or '
                                   '(len(script) >= 1 and script[0] == 106))')],
                 portfolio=True, props=['C01'])

    # T-FILE: a logical file is a byte array; read(start, size) returns the bytes present
    reg.cls(LF, fields={}, ghost={'g_data': KBytes}, methods={'read': LF + '.read', 'write': LF + '.write'})
    reg.contract(LF + '.read', params={'self': Obj(LF), 'start': Int, 'size': Int}, returns=KBytes,
                 requires=['start >= 0'],
                 ensures=['result == self.g_data[start:start + size]'], assumes_inv=False, maintains_inv=False,
                 trusted='T-FILE: LogicalFile.read(start, size) returns the bytes present in [start, start+size)')
    reg.contract(LF + '.write', params={'self': Obj(LF), 'start': Int, 'b': KBytes}, modifies=['self.g_data'],
                 requires=['start >= 0'],
                 ensures=[('below-untouched', 'self.g_data[0:start] == old(self.g_data)[0:start]'),
                          ('written', 'self.g_data[start:start + len(b)] == b')],
                 assumes_inv=False, maintains_inv=False, commit='file-write',
                 trusted='T-FILE: LogicalFile.write(start, b) replaces [start, start+len(b)); bytes below start are untouched; '
                         'a crash leaves a prefix of b written')
    db = reg.classes[DBK]
    db.fields['hashes_file'] = Obj(LF)
    db.fields['headers_file'] = Obj(LF)
    db.fields['tx_counts_file'] = Obj(LF)
    db.fields['header_mc'] = Obj('electrumx/lib/merkle.py:MerkleCache')

    SORTED = 'forall(lambda i=Int, j=Int: implies(0 <= i and i <= j and j < len(self.tx_counts), self.tx_counts[i] <= self.tx_counts[j]))'
    reg.contract(DBK + '.fs_tx_hash', params={'tx_num': Int}, requires=[('cumulative-counts-sorted', SORTED), 'tx_num >= 0'],
                 returns=Tuple(Opt(KBytes), Int), raises={}, assumes_inv=False, maintains_inv=False,
                 ensures=[('height', 'let(lambda h=result[1]: 0 <= h and h <= len(self.tx_counts) and '
                                     '(h == 0 or self.tx_counts[h - 1] <= tx_num) and (h == len(self.tx_counts) or tx_num < self.tx_counts[h]))'),
                          ('none-above-db-height', 'is_none(result[0]) == (result[1] > self.state.height)'),
                          ('hash', 'implies(not is_none(result[0]), result[0] == self.hashes_file.g_data[tx_num * 32:tx_num * 32 + 32])')],
                 props=['C01', 'C02'])
    reg.contract(DBK + '.backup_fs', params={'height': Int, 'tx_count': Int}, requires=['height >= 0'], raises={},
                 assumes_inv=False, maintains_inv=False,
                 ensures=[('pointers', 'self.fs_height == height and self.fs_tx_count == tx_count'),
                          ('header-cache-truncated', 'self.header_mc.length <= old(self.header_mc.length)'),
                          # header count is one more than the height: no cached header hash of an undone block survives
                          ('header-cache-covers-surviving-headers-only', 'self.header_mc.length <= height + 1')],
                 props=['C03', 'C11'])

    # C04: a history flush writes only rows with the fresh flush id and the state record, in one atomic batch
    NEWKEY = 'exists(lambda x=Bytes: x in old(self.unflushed) and k == concat(x, beu_enc(self.flush_count, 2)))'
    reg.contract(
        HIST + '.flush', params={},
        requires=[('a-flush', '0 <= self.flush_count and self.flush_count < 65535'),
                  ('hashX-length', 'forall(lambda x=Bytes: implies(x in self.unflushed, len(x) == 11))')],
        raises={}, modifies=['self.db.g_map', 'self.db.g_commits', 'self.flush_count', 'self.unflushed', 'self.unflushed_count'],
        assumes_inv=False, maintains_inv=False,
        ensures=[
            ('count', 'self.flush_count == old(self.flush_count) + 1'),
            ('one-atomic-commit', 'self.db.g_commits == old(self.db.g_commits) + 1'),
            ('cache-emptied', 'forall(lambda x=Bytes: x not in self.unflushed)'),
            ('rows-written', 'forall(lambda x=Bytes: implies(x in old(self.unflushed), '
                             'let(lambda k=concat(x, beu_enc(self.flush_count, 2)): k in self.db.g_map and '
                             'lookup(self.db.g_map, k) == lookup(old(self.unflushed), x))))'),
            ('only-fresh-ids', 'forall(lambda k=Bytes: implies((k in self.db.g_map) != (k in old(self.db.g_map)) or '
                               '(k in self.db.g_map and lookup(self.db.g_map, k) != lookup(old(self.db.g_map), k)), '
                               'k == STATEKEY or ' + NEWKEY + '))'),
        ],
        loops={0: LoopSpec('for hashX in sorted(unflushed)',
                           invariants=[('ops', 'forall(lambda k=Bytes: implies(k in batch.g_ops, exists(lambda x=Bytes: x in unflushed and '
                                               'x in _done and k == concat(x, flush_id) and not is_none(lookup(batch.g_ops, k)) and '
                                               'some(lookup(batch.g_ops, k)) == lookup(unflushed, x))))'),
                                       ('done', 'forall(lambda x=Bytes: implies(x in _done, let(lambda k=concat(x, flush_id): '
                                                'k in batch.g_ops and not is_none(lookup(batch.g_ops, k)) and '
                                                'some(lookup(batch.g_ops, k)) == lookup(unflushed, x))))')],
                           modifies=['batch.g_ops'])},
        portfolio=True, props=['C04', 'C02'])

    # C04 composition (lemma over the two contracts): die after the history batch of a flush, before the UTXO commit;
    # on restart clear_excess(N) with the committed flush count N gives back exactly the committed history rows
    DM = Dict(KBytes, KBytes)
    reg.lemma('history_flush_crash_is_scrubbed', {'M0': DM, 'M1': DM, 'M2': DM, 'N': Int},
              [  # committed state: every row id <= N
                  'forall(lambda k=Bytes: implies(k in M0 and k != STATEKEY, fid(k) <= N))',
                  # History.flush (post only-fresh-ids, flush_count = N + 1): changes only the state record and rows with id N + 1
                  'forall(lambda k=Bytes: implies((k in M1) != (k in M0) or (k in M1 and lookup(M1, k) != lookup(M0, k)), '
                  'k == STATEKEY or fid(k) == N + 1))',
                  # History.clear_excess(N) (posts excess-removed / others-kept)
                  'forall(lambda k=Bytes: implies(k in M2 and k != STATEKEY, fid(k) <= N))',
                  'forall(lambda k=Bytes: implies(k in M1 and fid(k) <= N and k != STATEKEY, k in M2 and lookup(M2, k) == lookup(M1, k)))',
                  'forall(lambda k=Bytes: implies(k in M2, k in M1 or k == STATEKEY))',
              ],
              'forall(lambda k=Bytes: implies(k != STATEKEY, (k in M2) == (k in M0) and implies(k in M2, lookup(M2, k) == lookup(M0, k))))',
              props=['C04'])
