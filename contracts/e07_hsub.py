'''C07 / C10 - header subscription bookkeeping and the moment the caches are told about a reorganisation.

  SessionManager._refresh_hsub_results(height)   the cached header-subscription result and notified_height are for the SAME
        height, min(height, db height) (a reorg can race and leave the DB lower): the raw header is read for exactly the height
        recorded as notified (ghost g_raw_height).  Otherwise a later notification at the recorded height would be taken for
        "height unchanged" while subscribers still hold a lower header.
  BlockProcessor.reorg_chain                      backed_up_event is set only after the LAST block has been undone (ghost: the
        processor height at the moment of set() is its final height): cached tx hashes / merkle trees of a block must not be
        re-filled between the signal and the undoing of that block.
'''
from pyvc.dsl import *
from pyvc.builtins import KJ, KBytes, KStr

S = 'electrumx/server/session.py:'
SM = S + 'SessionManager'
BP = 'electrumx/server/block_processor.py:BlockProcessor'


def register(reg):
    sm = reg.classes[SM]
    sm.ghost['g_raw_height'] = Int
    rh = reg.contracts[SM + '.raw_header']
    rh.modifies = list(rh.modifies) + ['self.g_raw_height']
    rh.ensures = list(rh.ensures) + [('header-of-that-height', 'self.g_raw_height == height')]
    old = reg.contracts[SM + '._refresh_hsub_results']
    reg.contract(
        SM + '._refresh_hsub_results', params={'height': Int},
        requires=['height >= 0', 'self.db.state.height >= 0'], raises={'RPCError': []},
        modifies=['self.hsub_results', 'self.notified_height', 'self.g_raw_height'],
        ensures=[('history-cache-untouched', 'self._history_cache == old(self._history_cache)'),
                 ('notified-height-is-the-clipped-height', 'some(self.notified_height) == min(old(height), self.db.state.height)'),
                 ('cached-header-is-the-header-of-the-notified-height', 'self.g_raw_height == some(self.notified_height)')],
        props=['C07', 'C10'])

    rc = reg.contracts[BP + '.reorg_chain']
    rc.ghost[('after', 'self.backed_up_event.set()')] = ['g_set_h = self.state.height']
    rc.locals['g_set_h'] = Int
    rc.ensures.append(('caches-are-told-after-the-last-block-is-undone', 'g_set_h == self.state.height'))
    if 'C10' not in rc.props:
        rc.props += ['C10', 'C11']

    ns = reg.contracts[SM + '._notify_sessions']
    ns.assumes_inv, ns.maintains_inv = True, False
    ns.requires = list(ns.requires) + [('heights', 'height >= 0 and self.db.state.height >= 0')]
    ns.modifies = list(ns.modifies) + ['self.g_raw_height']

    # the flag handed to every session says whether the height differs from the one last notified (a header subscriber is told
    # the new tip exactly then), and the cached header is refreshed exactly then
    CHANGED = '(is_none(old(self.notified_height)) or some(old(self.notified_height)) != height)'
    ns.ghost[('after', 'await group.spawn(session.notify, touched, height_changed)')] = \
        list(ns.ghost.get(('after', 'await group.spawn(session.notify, touched, height_changed)'), [])) + \
        ['check("sessions-are-told-whether-the-height-changed", height_changed == ' + CHANGED + ')']
    ns.ensures.append(('header-result-refreshed-exactly-when-the-height-changed',
                       'implies(' + CHANGED + ', some(self.notified_height) == min(height, self.db.state.height)) and '
                       'implies(not ' + CHANGED + ', self.notified_height == old(self.notified_height))'))
