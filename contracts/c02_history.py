'''C02 - confirmed history complete, ordered, duplicate-free (read path: electrumx/server/history.py get_txnums,
electrumx/server/db.py fs_tx_hash, fs_tx_hashes_at_blockheight, read_headers, limited_history.read_history,
electrumx/lib/util.py chunks, resolve_limit).

History rows hold 5-byte little-endian transaction numbers (layout invariant: every row value has a length
divisible by 5).  cum(rows, j) is the number of entries in the first j rows.
  get_txnums(hashX, limit): yields all entries (limit None / negative) or exactly the first `limit` of them
  fs_tx_hash(n): height = number of blocks whose cumulative transaction count is <= n (bisect_right on tx_counts)
'''
from pyvc.dsl import *
from pyvc.builtins import KJ, KBytes, KStr

DBK = 'electrumx/server/db.py:DB'
HIST = 'electrumx/server/history.py:History'
U = 'electrumx/lib/util.py:'
ROWS = List(Tuple(KBytes, KBytes))


def register(reg):
    reg.specfun('cum', [ROWS, Int], Int)
    reg.axiom('cum_zero', {'rows': ROWS}, 'cum(rows, 0) == 0')
    reg.axiom('cum_succ', {'rows': ROWS, 'j': Int},
              'implies(j >= 0, cum(rows, j + 1) == cum(rows, j) + div(len(rows[j][1]) + 4, 5))')

    reg.contract(U + 'resolve_limit', params={'limit': Opt(Int)}, returns=Int, raises={},
                 ensures=[('def', 'result == ite(is_none(limit), -1, ite(some(limit) < 0, -1, some(limit)))')],
                 props=['C02', 'C17'])
    # util.chunks (generator): consecutive slices of the given size
    reg.contract(U + 'chunks', params={'items': KBytes, 'size': Const(5)}, returns=List(KBytes), raises={},
                 ensures=[('count', 'len(result) == div(len(items) + size - 1, size)'),
                          ('slices', 'forall(lambda j=Int: implies(0 <= j and j < len(result), '
                                     'result[j] == items[j * size:j * size + size] and '
                                     'len(result[j]) == min(size, len(items) - j * size)))')],
                 loops={0: LoopSpec('for i in range(0, len(items), size)',
                                    invariants=[('yielded', 'len(_yielded) == _i and forall(lambda j=Int: implies(0 <= j and j < _i, '
                                                            '_yielded[j] == items[j * size:j * size + size] and '
                                                            'len(_yielded[j]) == min(size, len(items) - j * size)))')],
                                    modifies=['_yielded'])},
                 locals={'_yielded': List(KBytes)}, portfolio=True,
                 props=['C02', 'C17'])

    ROWS5 = 'forall(lambda k=Bytes: implies(k in self.db.g_map, mod(len(lookup(self.db.g_map, k)), 5) == 0))'
    L = 'ite(is_none(old(limit)), -1, ite(some(old(limit)) < 0, -1, some(old(limit))))'
    reg.contract(
        HIST + '.get_txnums', params={'hashX': KBytes, 'limit': Opt(Int)}, returns=List(Int),
        requires=[('rows-are-5-byte-arrays', ROWS5)],
        raises={}, ghost_results={'rows': ROWS},
        locals={'_yielded': List(Int)},
        ensures=[
            ('all-when-unlimited', 'implies(' + L + ' < 0, len(result) == cum(rows, len(rows)))'),
            ('exactly-limit-or-all', 'implies(' + L + ' >= 0, len(result) <= ' + L +
                                     ' and (len(result) == ' + L + ' or len(result) == cum(rows, len(rows))))'),
            ('never-more-than-there-is', 'len(result) <= cum(rows, len(rows)) or ' + L + ' >= 0'),
        ],
        ghost={('before', 'chunks = util.chunks'): ['L0 = limit']},
        loops={
            0: LoopSpec('for _key, hist in self.db.iterator(prefix=hashX)',
                        invariants=[('count', 'len(_yielded) == ite(L0 < 0, cum(_it0, _i), L0 - limit)'),
                                    ('limit', 'implies(L0 >= 0, 0 <= limit and limit <= L0 and (limit > 0 or True))'),
                                    ('progress', 'implies(L0 >= 0 and limit > 0, len(_yielded) == cum(_it0, _i))'),
                                    ('unlimited', 'implies(L0 < 0, limit < 0)')],
                        modifies=['_yielded'],
                        ghost_pre=['rows = copy(_it0)', 'use("cum_zero", _it0)'],
                        ghost_begin=['row_i = _i', 'use("cum_succ", rows, _i)', 'y_in = len(_yielded)']),
            1: LoopSpec('for tx_numb in chunks(hist, 5)',
                        invariants=[('count', 'len(_yielded) == y_in + _i'),
                                    ('limit', 'implies(L0 >= 0, 0 <= limit and limit == L0 - len(_yielded))'),
                                    ('unlimited', 'implies(L0 < 0, limit < 0)')],
                        modifies=['_yielded']),
        },
        portfolio=True,
        props=['C02', 'C17'])
