'''C20 - Notifications (electrumx/server/controller.py).

Ghost state (fields g_* of the Notifications object; never read by the code):
  g_mp_seen / g_bp_seen : heights at which a mempool refresh / a block report or start-up was received
  g_given               : every script hash ever handed over by either source
  g_sent                : every script hash that appeared in a notify() call
  g_last_mp / g_last_bp : height of the most recent report of each source

notify() is the observation point of the property.  Its contract is the *statement*:
  clause 1 (agreed heights) is its precondition, checked at every call site;
  its effect on the ghost state is g_sent |= touched.
'''
from pyvc.dsl import *

N = 'electrumx/server/controller.py:Notifications'

NOTHING_LOST = ('forall(lambda x=HX: implies(x in self.g_given, x in self.g_sent'
                ' or exists(lambda h=Int: h in self._touched_mp and x in lookup(self._touched_mp, h))'
                ' or exists(lambda h=Int: h in self._touched_bp and x in lookup(self._touched_bp, h))))')
MP_KEYS = 'forall(lambda h=Int: implies(h in self._touched_mp, h in self.g_mp_seen and h >= 0))'
BP_KEYS = 'forall(lambda h=Int: implies(h in self._touched_bp, h in self.g_bp_seen and h >= 0))'
HIGHEST_SEEN = 'self._highest_block == -1 or self._highest_block in self.g_bp_seen'
HIGHEST_LAST = 'self._highest_block == self.g_last_bp'
SEEN_NONNEG = 'forall(lambda h=Int: implies(h in self.g_mp_seen or h in self.g_bp_seen, h >= 0))'
# at rest no height is pending in both maps (a common height is notified at once)
DISJOINT = 'forall(lambda h=Int: not (h in self._touched_mp and h in self._touched_bp))'

BASE_INV = [('nothing-lost', NOTHING_LOST), ('mp-keys-seen', MP_KEYS), ('bp-keys-seen', BP_KEYS),
            ('highest-seen', HIGHEST_SEEN), ('highest-is-last', HIGHEST_LAST), ('seen-nonneg', SEEN_NONNEG)]


def register(reg):
    HX = reg.usort('HX')
    reg.cls(N,
            fields={'_touched_mp': Dict(Int, Set(HX)), '_touched_bp': Dict(Int, Set(HX)),
                    '_highest_block': Int},
            ghost={'g_mp_seen': Set(Int), 'g_bp_seen': Set(Int), 'g_given': Set(HX), 'g_sent': Set(HX),
                   'g_last_mp': Int, 'g_last_bp': Int},
            inv=BASE_INV + [('pending-disjoint', DISJOINT)])

    # the callback: the property's observation point (environment, not code under proof)
    reg.contract(N + '.notify', params={'height': Int, 'touched': Set(HX)},
                 requires=[('agreed-mempool', 'height in self.g_mp_seen'),
                           ('agreed-block', 'height in self.g_bp_seen')],
                 modifies=['self.g_sent'],
                 ensures=['self.g_sent == union(old(self.g_sent), touched)'],
                 assumes_inv=False, maintains_inv=False,
                 trusted='ENV-NOTIFY: notify() is the observation point; its contract is clause 1 of the statement',
                 props=['C20'])

    # pending keys above a height: the situation that only arises after heights have fallen
    above = ('(exists(lambda h=Int: h in old(self._touched_mp) and h > {H})'
             ' or exists(lambda h=Int: h in old(self._touched_bp) and h > {H}))')

    # "by the time both sources have reported at the current height": at the moment the second
    # of the two fresh reports for a height arrives nothing handed over may still be unsent -
    # a mempool refresh at the height of the latest block report, or a block report at a
    # height for which a mempool refresh is pending (DESIGN 6, C20)
    complete = {
        'on_mempool': 'implies(height == self.g_last_bp, subset(self.g_given, self.g_sent))',
        'on_block': 'implies(height in old(self._touched_mp), subset(self.g_given, self.g_sent))',
    }

    # every script hash pending in the old maps is either in the set being notified or still
    # pending under the same key (no quantifier alternation: decided both ways by the solver)
    cover_mp = ('forall(lambda h=Int, x=HX: implies(h in tmp0 and x in lookup(tmp0, h),'
                ' x in touched or (h in tmp and x in lookup(tmp, h))))')
    cover_bp = ('forall(lambda h=Int, x=HX: implies(h in tbp0 and x in lookup(tbp0, h),'
                ' x in touched or (h in tbp and x in lookup(tbp, h))))')

    reg.contract(
        N + '._maybe_notify', params={}, inline=True,
        interference={'holds_inv': True, 'no_access_after': True},
        assumes_inv=False, maintains_inv=False,
        requires=BASE_INV,          # the public methods call it with the common height still pending
        ensures=BASE_INV + [
            ('pending-disjoint', DISJOINT),
            ('frame', 'self.g_given == old(self.g_given) and self.g_mp_seen == old(self.g_mp_seen)'
                      ' and self.g_bp_seen == old(self.g_bp_seen) and self._highest_block == old(self._highest_block)'
                      ' and self.g_last_mp == old(self.g_last_mp) and self.g_last_bp == old(self.g_last_bp)'),
            ('sent-grows', 'subset(old(self.g_sent), self.g_sent)'),
        ],
        loops={
            0: LoopSpec('for old in [h for h in tmp if h <= height]',
                        invariants=[
                            ('keys', 'forall(lambda h=Int: (h in tmp) == (h in tmp0 and h != height and not (h <= height and h in _done)))'),
                            ('vals', 'forall(lambda h=Int, x=HX: implies(h in tmp, (x in lookup(tmp, h)) == (x in lookup(tmp0, h))))'),
                            ('cover-mp', cover_mp),
                        ]),
            1: LoopSpec('for old in [h for h in tbp if h <= height]',
                        invariants=[
                            ('keys', 'forall(lambda h=Int: (h in tbp) == (h in tbp0 and not (h <= height and h in _done)))'),
                            ('vals', 'forall(lambda h=Int, x=HX: implies(h in tbp, (x in lookup(tbp, h)) == (x in lookup(tbp0, h))))'),
                            ('cover-mp', cover_mp),
                            ('cover-bp', cover_bp),
                        ]),
        },
        ghost={
            ('after', 'touched = tmp.pop(height)'): ['tmp0 = old(self._touched_mp)', 'tbp0 = old(self._touched_bp)'],
        },
        props=['C20'])

    for meth, seen, last in (('on_mempool', 'g_mp_seen', 'g_last_mp'), ('on_block', 'g_bp_seen', 'g_last_bp')):
        reg.contract(N + '.' + meth, params={'touched': Set(HX), 'height': Int},
                     requires=['height >= 0'],
                     # the two sources run in different tasks: at every await the other source may call in, so
                     # the class invariant must hold there and no shared state may be touched afterwards
                     interference={'holds_inv': True, 'no_access_after': True},
                     ghost={'entry': [f'self.{seen} = add(self.{seen}, height)',
                                      'self.g_given = union(self.g_given, touched)',
                                      f'self.{last} = height']},
                     ensures=[
                         ('given', 'self.g_given == union(old(self.g_given), touched)'),
                         {'label': 'complete', 'expr': complete[meth], 'kf': 'KF-C20-1',
                          'kf_when': above.format(H='height')},
                     ],
                     props=['C20'])

    reg.contract(N + '.start', params={'height': Int, 'notify_func': Callable(N + '.notify')},
                 requires=['height >= 0'],
                 interference={'holds_inv': True, 'no_access_after': True},
                 ghost={'entry': ['self.g_bp_seen = add(self.g_bp_seen, height)', 'self.g_last_bp = height',
                                  # start-up at h stands for both reports at h (statement: "or start-up at h")
                                  'self.g_mp_seen = add(self.g_mp_seen, height)']},
                 ensures=[('given', 'self.g_given == old(self.g_given)')],
                 props=['C20'])
