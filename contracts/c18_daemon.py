'''C18 - daemon calls ride out transient faults and return only genuine results (electrumx/server/daemon.py).

Ghost fault script (fields of the Daemon object, never read by the code):
  g_F : List(Int)  the daemon's behaviour at successive attempts: 0 answers, 1..7 one of the seven transient fault
                   classes _send catches, 8 a genuine RPC error
  g_p : Int        index of the next attempt
  genuine(url_index, attempt) is the daemon's real answer to this request at that attempt (uninterpreted).
"Any finite sequence of transient failures followed by availability" is the precondition: some q >= g_p with
g_F[q] in {0, 8} and only faults before it.
'''
from pyvc.dsl import *
from pyvc.builtins import KJ, KBytes, KStr

D = 'electrumx/server/daemon.py:Daemon'
FAULTS = {1: 'asyncio.TimeoutError', 2: 'aiohttp.ServerDisconnectedError', 3: 'ConnectionResetError',
          4: 'aiohttp.ClientConnectionError', 5: 'aiohttp.ClientPayloadError', 6: 'ServiceRefusedError',
          7: 'WarmingUpError'}


AVAIL_SRC = ('self.g_p <= q and q < len(self.g_F) and (self.g_F[q] == 0 or self.g_F[q] == 8) and '
             'forall(lambda j=Int: implies(self.g_p <= j and j < q, 1 <= self.g_F[j] and self.g_F[j] <= 7))')


def register(reg):
    reg.specfun('genuine', [Int, Int], KJ)
    # rr(i, k, n): the URL index after k fail-overs starting from i with n URLs (cyclic successor, iterated)
    reg.specfun('rr', [Int, Int, Int], Int)
    reg.axiom('rr_zero', {'i': Int, 'n': Int}, 'rr(i, 0, n) == i')
    reg.axiom('rr_succ', {'i': Int, 'k': Int, 'n': Int},
              'implies(k >= 0, rr(i, k + 1, n) == ite(rr(i, k, n) + 1 == n, 0, rr(i, k, n) + 1))')
    reg.cls(D, fields={'urls': List(KStr), 'url_index': Int, 'init_retry': Real, 'max_retry': Real, '_height': Opt(KJ)},
            ghost={'g_F': List(Int), 'g_p': Int, 'g_fo': Int},
            consts={'WARMING_UP': -28},
            inv=[('urls', 'len(self.urls) >= 1 and 0 <= self.url_index and self.url_index < len(self.urls)'),
                 ('retry-range', '0 < self.init_retry and self.init_retry <= self.max_retry'),
                 ('script', '0 <= self.g_p')])

    # T-HTTP: one attempt consumes one event of the script
    raises = {name: [f'old(self.g_F)[old(self.g_p)] == {k}', 'self.g_p == old(self.g_p) + 1'] for k, name in FAULTS.items()}
    raises['DaemonError'] = ['old(self.g_F)[old(self.g_p)] == 8', 'self.g_p == old(self.g_p) + 1']
    reg.contract('ext:daemon_call', params={'self': Obj(D), 'a0': KJ, 'a1': KJ}, returns=KJ,
                 modifies=['self.g_p'], raises=raises, assumes_inv=False, maintains_inv=False,
                 ensures=['old(self.g_F)[old(self.g_p)] == 0', 'self.g_p == old(self.g_p) + 1',
                          'result == genuine(self.url_index, old(self.g_p))'],
                 trusted='T-HTTP: an attempt either returns the daemon\'s reply to the request it was given or raises one '
                         'of the listed exception classes (the fault alphabet of C18)')

    reg.contract(D + '.failover', params={}, returns=Bool, raises={},
                 modifies=['self.url_index', 'self.g_fo'],
                 ghost={('after', 'self.url_index = (self.url_index + 1) % len(self.urls)'): ['self.g_fo = self.g_fo + 1']},
                 ensures=[('one-url', 'implies(len(self.urls) == 1, not result and self.url_index == old(self.url_index) and self.g_fo == old(self.g_fo))'),
                          ('round-robin', 'implies(len(self.urls) > 1, result and self.url_index == '
                                          'ite(old(self.url_index) + 1 == len(self.urls), 0, old(self.url_index) + 1)'
                                          ' and self.g_fo == old(self.g_fo) + 1)')],
                 props=['C18'])

    AVAIL = ('self.g_p <= q and q < len(self.g_F) and (self.g_F[q] == 0 or self.g_F[q] == 8) and '
             'forall(lambda j=Int: implies(self.g_p <= j and j < q, 1 <= self.g_F[j] and self.g_F[j] <= 7))')
    fo = reg.contracts[D + '.failover']
    # inside _send a fail-over is attempted only when the back-off has reached its maximum (the closure log_error runs in
    # _send's scope: `retry` is _send's variable)
    FO_VIEW = Contract(D + '.failover', params={}, returns=Bool, raises={}, modifies=list(fo.modifies),
                       requires=[('only-when-the-back-off-is-at-its-maximum', 'retry == self.max_retry')],
                       ensures=list(fo.ensures), ghost=dict(fo.ghost),
                       trusted='the contract of failover itself (proved) plus the call-site condition of _send')
    reg.contract(
        D + '._send', params={'func': Callable('ext:daemon_call', bind='self'), 'args': Tuple(KJ, KJ)}, returns=KJ,
        views={D + '.failover': FO_VIEW},
        ghost_params={'q': Int},
        requires=[('finite-faults-then-availability', AVAIL)],
        raises={'DaemonError': ['self.g_F[q] == 8', 'self.g_p == q + 1']},     # raised at its first occurrence, not retried
        modifies=['self.g_p', 'self.url_index', 'self.g_fo'],
        ensures=[('answered', 'self.g_F[q] == 0 and self.g_p == q + 1'),
                 ('genuine', 'result == genuine(self.url_index, q)'),
                 ('round-robin', 'self.url_index == rr(old(self.url_index), self.g_fo - old(self.g_fo), len(self.urls))'),
                 ('single-url-stays', 'implies(len(self.urls) == 1, self.url_index == old(self.url_index))')],
        loops={0: LoopSpec('while True',
                           invariants=[('progress', 'old(self.g_p) <= self.g_p and self.g_p <= q'),
                                       ('backoff', 'self.init_retry <= retry and retry <= self.max_retry'),
                                       ('round-robin', 'self.url_index == rr(old(self.url_index), self.g_fo - old(self.g_fo), len(self.urls)) and self.g_fo >= old(self.g_fo)'),
                                       ('single-url', 'implies(len(self.urls) == 1, self.url_index == old(self.url_index))'),
                                       ('urls', '0 <= self.url_index and self.url_index < len(self.urls)')],
                           modifies=['self.g_p', 'self.url_index', 'self.g_fo', 'last_error_log'],
                           var_kinds={'on_good_message': Opt(KStr), 'result': KJ},
                           ghost_pre=['use("rr_zero", self.url_index, len(self.urls))'],
                           ghost_end=['use("rr_succ", old(self.url_index), self.g_fo - old(self.g_fo) - 1, len(self.urls))'],
                           decreases='q - self.g_p')},
        props=['C18'])
    # the closure of _send: fail over exactly when the back-off has reached the maximum, then restart it
    reg.contract(D + '._send.<locals>.log_error', params={'error': KStr}, inline=True)

    ERR = OneOf(Const(None), Record(code=KJ, message=KStr))
    # the reply of a single call: no error -> the result itself; error code -28 (warming up) -> the transient WarmingUpError
    # (retried by _send); any other error -> the genuine DaemonError for the caller
    reg.contract(D + '._send_single.<locals>.processor', params={'result': Record(error=ERR, result=KJ)},
                 closure_env={'self': Obj(D)},
                 raises={'WarmingUpError': ['not is_none(result["error"]) and py_eq(result["error"]["code"], -28)'],
                         'DaemonError': ['not is_none(result["error"]) and not py_eq(result["error"]["code"], -28)']},
                 returns=KJ,
                 ensures=[('the-result-of-an-error-free-reply', 'is_none(result["error"]) and ret == result["result"]')],
                 props=['C18'])
    reg.contract(D + '.cached_height', params={}, raises={}, ensures=['result == self._height'], props=['C18'])


    POST = [('answered', 'self.g_F[q] == 0 and self.g_p == q + 1'), ('genuine', 'result == genuine(self.url_index, q)')]
    RAISES = {'DaemonError': ['self.g_F[q] == 8', 'self.g_p == q + 1']}
    MOD = ['self.g_p', 'self.url_index', 'self.g_fo']
    reg.contract(D + '._send_single', params={'method': KStr, 'params': KJ}, returns=KJ, ghost_params={'q': Int},
                 requires=[('finite-faults-then-availability', AVAIL)], raises=RAISES, modifies=MOD, ensures=POST,
                 props=['C18'])
    for name, params in (('mempool_hashes', {}), ('getnetworkinfo', {}), ('broadcast_transaction', {'raw_tx': KJ}),
                         ('getrawtransaction', {'hex_hash': KJ, 'verbose': Bool})):
        reg.contract(D + '.' + name, params=params, returns=KJ, ghost_params={'q': Int},
                     requires=[('finite-faults-then-availability', AVAIL)], raises=RAISES, modifies=MOD, ensures=POST,
                     props=['C18'])
    reg.contract(D + '.height', params={}, returns=KJ, ghost_params={'q': Int},
                 requires=[('finite-faults-then-availability', AVAIL)], raises=RAISES, modifies=MOD + ['self._height'],
                 ensures=POST + [('cached', 'self._height == result')], props=['C18'])
