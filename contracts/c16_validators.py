'''C16 (part 1) - argument validators of the protocol handlers (electrumx/server/session.py) and the
version helpers of electrumx/lib/util.py.  Arguments are values of the JSON datatype J: every shape a
client can send, including the non-finite floats Python's json module accepts.

Statement taken from the property: the only exception that may escape a validator is RPCError
(a protocol error reply); `raises` is a closed set.
'''
from pyvc.dsl import *
from pyvc.builtins import KJ, KBytes, KStr

S = 'electrumx/server/session.py:'
U = 'electrumx/lib/util.py:'
Hh = 'electrumx/lib/hash.py:'


def register(reg):
    reg.inline.add(Hh + 'hex_str_to_hash')
    reg.inline.add(Hh + 'hash_to_hex_str')

    reg.contract(S + 'scripthash_to_hashX', params={'scripthash': KJ}, returns=KBytes,
                 raises={'RPCError': []},
                 ensures=[('len', 'len(result) == 11'), ('str', 'isinstance(scripthash, str)')],
                 props=['C16'])
    reg.contract(S + 'assert_tx_hash', params={'value': KJ}, returns=KBytes,
                 raises={'RPCError': []},
                 ensures=[('len', 'len(result) == 32'), ('str', 'isinstance(value, str)')],
                 props=['C16'])
    reg.contract(S + 'assert_raw_bytes', params={'value': KJ}, returns=KBytes,
                 raises={'RPCError': []},
                 ensures=[('str', 'isinstance(value, str)')],
                 props=['C16'])
    reg.contract(S + 'non_negative_integer', params={'value': KJ}, returns=Int,
                 raises={'RPCError': []},
                 ensures=[('nonneg', 'result >= 0'),
                          ('shape', 'not is_none(value) and not isinstance(value, list) and not isinstance(value, dict)')],
                 props=['C16', 'C17'])
    reg.contract(S + 'assert_boolean', params={'value': KJ}, returns=KJ,
                 raises={'RPCError': []},
                 ensures=[],
                 props=['C16'])

    # version helpers: total functions (every malformed version string becomes protocol 0)
    reg.contract(U + 'protocol_tuple', params={'s': KJ}, returns=VarTuple(Int), raises={},
                 ensures=[], props=['C16'])
    reg.contract(U + 'protocol_version', params={'client_req': KJ, 'min_tuple': Const((1, 4)), 'max_tuple': Const((1, 4, 2))},
                 returns=Tuple(Opt(VarTuple(Int)), VarTuple(Int)), raises={}, ensures=[], props=['C16'])
