'''C14 - History._compact_history: the cursor discipline of one compaction batch.

  * the 2-byte prefixes compacted in this batch are exactly old cursor .. new cursor - 1, each once, in order (ghost g_done);
  * the batch is flushed with the NEW cursor: a batch that stopped early persists the cursor of the first prefix NOT yet
    compacted (so a killed run resumes without skipping or repeating a prefix), a batch that reached 65536 completes the
    compaction (flush_count := comp_flush_count, cursor := -1) - by the contract of _flush_compaction;
  * a batch started with a positive limit below 65536 makes progress (termination of the tool's loop).
What compacting one prefix does to the rows (_compact_prefix / _compact_hashX) is a bounded stand-in.
'''
from pyvc.dsl import *
from pyvc.builtins import KJ, KBytes, KStr

HIST = 'electrumx/server/history.py:History'
WI = List(Tuple(KBytes, KBytes))


def register(reg):
    reg.classes[HIST].ghost['g_done'] = List(Int)          # prefixes handed to _compact_prefix so far, in order
    NOSTATE = ('STATEKEY not in keys_to_delete and '
               'forall(lambda j=Int: implies(0 <= j and j < len(write_items), write_items[j][0] != STATEKEY))')
    reg.contract(HIST + '._compact_prefix', params={'prefix': KBytes, 'write_items': WI, 'keys_to_delete': Set(KBytes)}, returns=Int,
                 requires=['len(prefix) == 2'], raises={}, assumes_inv=False, maintains_inv=False,
                 modifies=['write_items', 'keys_to_delete', 'self.comp_flush_count', 'self.g_done', 'self.g_hx'],
                 ensures=['result >= 0', 'self.comp_flush_count >= old(self.comp_flush_count)',
                          'self.g_done == snoc(old(self.g_done), beu_dec(prefix))',
                          # history rows have 13-byte keys: the 7-byte state key is never queued
                          'implies(' + NOSTATE.replace('keys_to_delete', 'old(keys_to_delete)').replace('write_items', 'old(write_items)') + ', ' + NOSTATE + ')'],
                 trusted='A-CALLEE: History._compact_prefix compacts the rows of one 2-byte prefix into write_items / keys_to_delete '
                         '(only 13-byte history keys are queued; comp_flush_count only grows): bounded stand-in of C14')
    reg.contract(
        HIST + '._compact_history', params={'limit': Int},
        requires=[('compaction-in-progress', '0 <= self.comp_cursor and self.comp_cursor <= 65536'), ('fresh-log', 'len(self.g_done) == 0')],
        raises={}, returns=Int, assumes_inv=False, maintains_inv=False,
        modifies=['self.db.g_map', 'self.db.g_commits', 'self.comp_cursor', 'self.comp_flush_count', 'self.flush_count', 'self.g_done', 'self.g_hx'],
        locals={'write_items': WI, 'keys_to_delete': Set(KBytes)},
        ghost={('before', 'self._flush_compaction(cursor, write_items, keys_to_delete)'):
               ['check("each-prefix-once-in-order", len(self.g_done) == cursor - old(self.comp_cursor) and '
                'forall(lambda j=Int: implies(0 <= j and j < len(self.g_done), self.g_done[j] == old(self.comp_cursor) + j)))',
                'check("progress", implies(limit > 0 and old(self.comp_cursor) < 65536, cursor > old(self.comp_cursor)))',
                'c1 = cursor']},
        ensures=[('cursor-persisted-or-completed',
                  'ite(c1 == 65536, self.comp_cursor == -1 and self.comp_flush_count == -1, self.comp_cursor == c1)'),
                 ('never-beyond-the-last-prefix', 'old(self.comp_cursor) <= c1 and c1 <= 65536')],
        loops={0: LoopSpec('while write_size < limit and cursor < 65536',
                           invariants=[('range', 'old(self.comp_cursor) <= cursor and cursor <= 65536 and write_size >= 0'),
                                       ('log', 'len(self.g_done) == cursor - old(self.comp_cursor) and '
                                               'forall(lambda j=Int: implies(0 <= j and j < len(self.g_done), self.g_done[j] == old(self.comp_cursor) + j))'),
                                       ('no-state-key', NOSTATE),
                                       ('cursor-not-yet-moved', 'self.comp_cursor == old(self.comp_cursor)'),
                                       ('progress', 'implies(cursor == old(self.comp_cursor), write_size == 0)')],
                           modifies=['write_items', 'keys_to_delete', 'self.comp_flush_count', 'self.g_done', 'self.g_hx'],
                           decreases='65536 - cursor')},
        props=['C14'])
