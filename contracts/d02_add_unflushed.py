'''C02 - History.add_unflushed: every script hash gets the 5-byte number of each transaction that touches it, once per
transaction, in transaction order, and nothing else changes.

The statement is proved for an arbitrary fixed script hash hx (ghost parameter): the unflushed history of hx afterwards is
what it was before followed by ext(hashXs_by_tx, first_tx_num, len, hx), where
    ext(L, f, 0, hx)     = b''
    ext(L, f, n + 1, hx) = ext(L, f, n, hx) + (le64(f + n)[:5]  if hx in L[n]  else b'')
"hx in L[n]" is list membership: a transaction that lists hx several times contributes once.
'''
from pyvc.dsl import *
from pyvc.builtins import KJ, KBytes, KStr

HIST = 'electrumx/server/history.py:History'
TXL = List(List(KBytes))


def register(reg):
    reg.specfun('ext', [TXL, Int, Int, KBytes], KBytes)
    reg.axiom('ext_zero', {'L': TXL, 'f': Int, 'hx': KBytes}, 'len(ext(L, f, 0, hx)) == 0')
    reg.axiom('ext_succ', {'L': TXL, 'f': Int, 'n': Int, 'hx': KBytes},
              'implies(n >= 0, ext(L, f, n + 1, hx) == ext(L, f, n, hx) + ite(hx in L[n], leu_enc(f + n, 8)[0:5], b""))')
    CUR = 'ite(hx in self.unflushed, lookup(self.unflushed, hx), b"")'
    OLD = 'ite(hx in old(self.unflushed), lookup(old(self.unflushed), hx), b"")'
    reg.contract(
        HIST + '.add_unflushed', params={'hashXs_by_tx': TXL, 'first_tx_num': Int}, ghost_params={'hx': KBytes},
        requires=['first_tx_num >= 0', 'first_tx_num + len(hashXs_by_tx) < 1099511627776'],
        raises={}, assumes_inv=False, maintains_inv=False, modifies=['self.unflushed', 'self.unflushed_count'],
        ensures=[('appended-once-per-tx-in-order', f'{CUR} == {OLD} + ext(hashXs_by_tx, first_tx_num, len(hashXs_by_tx), hx)'),
                 ('count-grows', 'self.unflushed_count >= old(self.unflushed_count)')],
        loops={0: LoopSpec('for tx_num, hashXs in enumerate(hashXs_by_tx, start=first_tx_num)',
                           invariants=[('prefix-done', f'{CUR} == {OLD} + ext(hashXs_by_tx, first_tx_num, _i, hx)'),
                                       ('count', 'count >= 0')],
                           modifies=['self.unflushed', 'count'],
                           ghost_pre=['use("ext_zero", hashXs_by_tx, first_tx_num, hx)'],
                           ghost_begin=['use("ext_succ", hashXs_by_tx, first_tx_num, _i, hx)', f'h_in = {CUR}']),
               1: LoopSpec('for hashX in hashXs',
                           invariants=[('this-tx-once', f'{CUR} == h_in + ite(hx in _done, tx_numb, b"")')],
                           modifies=['self.unflushed'])},
        portfolio=True, props=['C02'])

    # History.flush: the state record committed with the rows carries the count OF THIS FLUSH (a record one behind makes the
    # next flush after a re-open reuse the id and overwrite these rows)
    reg.contracts[HIST + '.flush'].ensures.append(
        ('state-record-counts-this-flush',
         'STATEKEY in self.db.g_map and lookup(self.db.g_map, STATEKEY) == '
         'hstate(self.flush_count, self.comp_flush_count, self.comp_cursor, self.db_version, self.upgrade_cursor)'))
