'''Shared class descriptions of the session layer: Env, SessionManager, ElectrumX, MemPool/Daemon stubs (fields only;
the contracts live in the per-property files).'''
from pyvc.dsl import *
from pyvc.builtins import KJ, KBytes, KStr

S = 'electrumx/server/session.py:'
EX = S + 'ElectrumX'
SM = S + 'SessionManager'
PM = 'electrumx/server/peers.py:PeerManager'
DBK = 'electrumx/server/db.py:DB'


def register(reg):
    Opaque = reg.usort('Opaque')
    NetAddr = reg.usort('NetAddr', attrs={'host': KStr})
    reg.cls(PM, fields={})
    reg.cls('ext:Env', fields={'max_send': Int, 'donation_address': KStr, 'drop_client': Opt(Opaque)},
            inv=['self.max_send >= 350000'])
    reg.cls(SM, fields={'db': Obj(DBK), 'env': Obj('ext:Env'), 'hsub_results': Opt(KJ), 'txs_sent': Int,
                        'daemon': Obj('ext:Daemon')})
    reg.cls('ext:Daemon', fields={})
    reg.cls('ext:MemPool', fields={})
    reg.cls(EX,
            fields={'session_mgr': Obj(SM), 'db': Obj(DBK), 'mempool': Obj('ext:MemPool'), 'peer_mgr': Obj(PM),
                    'env': Obj('ext:Env'), 'hashX_subs': Dict(KBytes, KJ), 'mempool_statuses': Dict(KBytes, Opt(KStr)),
                    'subscribe_headers': Bool, 'sv_seen': Bool, 'is_peer': Bool, 'client': KStr, 'txs_sent': Int,
                    'daemon_request': Callable(SM + '.daemon_request'),
                    'protocol_tuple': VarTuple(Int), 'request_handlers': KJ},
            methods={'bump_cost': 'ext:RPCSession.bump_cost', 'remote_address': 'ext:RPCSession.remote_address',
                     'is_tor': EX + '.is_tor'})

