'''C10 - answers are never stale once the server is quiescent: the cache-invalidation components.

  * SessionManager._notify_sessions(height, touched): every script hash whose confirmed history may have changed
    (the touched set of the notification) must leave the history cache - whether or not the height changed
    (a reorganisation can end at the notified height).
  * SessionManager.tx_hashes_at_blockheight: the list stored in the by-height cache was read within one reorg epoch.
'''
from pyvc.dsl import *
from pyvc.builtins import KJ, KBytes, KStr

S = 'electrumx/server/session.py:'
SM = S + 'SessionManager'
DBK = 'electrumx/server/db.py:DB'
HISTV = ExcOr(List(Tuple(KBytes, Int)), 'RPCError')


def register(reg):
    Session = reg.usort('SessionRef')
    sm = reg.classes[SM]
    sm.fields['notified_height'] = Opt(Int)
    sm.fields['sessions'] = Dict(Session, Int)
    sm.fields['_history_cache'] = Dict(KBytes, HISTV)
    reg.contract(SM + '._refresh_hsub_results', params={'height': Int}, raises={'RPCError': []},
                 modifies=['self.hsub_results', 'self.notified_height'],
                 ensures=['self._history_cache == old(self._history_cache)'],
                 assumes_inv=False, maintains_inv=False,
                 trusted='A-CALLEE: SessionManager._refresh_hsub_results updates hsub_results / notified_height only')
    reg.builtin('opaque.spawn', params={'self_': KJ}, trusted='T-RPCX: TaskGroup.spawn schedules a task')
    reg.contract(
        SM + '._notify_sessions', params={'height': Int, 'touched': Set(KBytes)},
        raises={'RPCError': []}, assumes_inv=False, maintains_inv=False,
        modifies=['self._history_cache', 'self.hsub_results', 'self.notified_height'],
        ensures=[('touched-evicted', 'forall(lambda x=Bytes: implies(x in touched, x not in self._history_cache))'),
                 ('others-kept', 'forall(lambda x=Bytes: implies(x not in touched and x in old(self._history_cache), '
                                 'x in self._history_cache))')],
        loops={0: LoopSpec('for hashX in set(cache).intersection(touched)',
                           invariants=[('evicted', 'forall(lambda x=Bytes: (x in cache) == (x in old(self._history_cache) and not (x in _done)))')]),
               1: LoopSpec('for session in self.sessions',
                           invariants=[('every-session-so-far-was-handed-the-notification',
                                        'forall(lambda s=SessionRef: implies(s in _done, s in g_sp))')],
                           ghost_pre=['g_sp = empty(SessionRef)'])},
        ghost={('after', 'await group.spawn(session.notify, touched, height_changed)'): ['g_sp = add(g_sp, session)'],
               'exit': ['check("every-connected-session-is-notified", forall(lambda s=SessionRef: implies(s in self.sessions, s in g_sp)))']},
        locals={'g_sp': Set(Session)},
        props=['C10', 'C07'])
