'''C17 / C10 / C11 - the file-backed read functions behind blockchain.block.headers and the by-height queries.

  DB.read_headers(start, count)          returns exactly n = max(0, min(count, height + 1 - start)) headers: 80 * n bytes and
                                         the number n itself (never the requested count) - so the reply's count field equals the
                                         number of headers in hex.  (Was an assumed callee contract of C16/C17; now proved.)
  DB.fs_tx_hashes_at_blockheight(h)      refused (DBError) exactly when h is above the FLUSHED height state.height - tx_counts may
                                         already hold counts of blocks that are connected but not flushed, whose hashes are not
                                         (or no longer: reorg) in the hashes file; otherwise the tx hashes of block h in order.
  ElectrumX.block_headers                the checkpoint proof, when given, is for the LAST HEADER RETURNED
                                         (start_height + returned count - 1), not for the requested range.
'''
from pyvc.dsl import *
from pyvc.builtins import KJ, KBytes, KStr

DBK = 'electrumx/server/db.py:DB'
EX = 'electrumx/server/session.py:ElectrumX'


def register(reg):
    c = reg.contracts[DBK + '.read_headers']
    c.trusted = None
    c.raises = {}
    # A-INV-FILES (class invariant of DB, assumed for every DB object a caller holds): the meta files are written before the
    # state that refers to them (flush order of C04), so the headers file covers every height up to state.height
    reg.classes[DBK].inv.append(('headers-on-disk', 'len(self.headers_file.g_data) >= 80 * (self.state.height + 1)'))
    c.assumes_inv, c.maintains_inv = True, False
    c.ensures = [('count-returned-is-count-read', 'result[1] == max(0, min(count, self.state.height + 1 - start_height))'),
                 ('eighty-bytes-each', 'len(result[0]) == 80 * result[1]'),
                 ('those-headers', 'result[0] == self.headers_file.g_data[start_height * 80:start_height * 80 + 80 * result[1]]')]
    c.props = sorted(set(c.props) | {'C17', 'C11'})
    reg.inline.add(DBK + '.read_headers.<locals>.read_headers')

    SORTED = ('forall(lambda i=Int, j=Int: implies(0 <= i and i <= j and j < len(self.tx_counts), '
              'self.tx_counts[i] <= self.tx_counts[j]))')
    reg.contract(
        DBK + '.fs_tx_hashes_at_blockheight', params={'block_height': Int}, returns=List(KBytes),
        requires=[('height', 'block_height >= 0'), ('cumulative-counts-sorted', SORTED),
                  ('counts-cover-flushed-blocks', 'len(self.tx_counts) >= self.state.height + 1 and '
                                                  'implies(len(self.tx_counts) > 0, self.tx_counts[0] >= 0)'),
                  ('hashes-on-disk-up-to-flushed-height', 'implies(self.state.height >= 0, len(self.hashes_file.g_data) >= '
                                                          '32 * self.tx_counts[self.state.height])')],
        raises={'DBError': ['block_height > self.state.height']}, assumes_inv=False, maintains_inv=False,
        ensures=[('only-flushed-blocks-are-served', 'block_height <= self.state.height'),
                 ('count', 'len(result) == self.tx_counts[block_height] - ite(block_height > 0, self.tx_counts[block_height - 1], 0)'),
                 ('hashes-in-block-order', 'forall(lambda j=Int: implies(0 <= j and j < len(result), let(lambda f=ite(block_height > 0, '
                                           'self.tx_counts[block_height - 1], 0): result[j] == self.hashes_file.g_data[(f + j) * 32:(f + j) * 32 + 32])))')],
        portfolio=True, props=['C10', 'C11', 'C02'])

    b = reg.contracts[EX + '.block_headers']
    b.ghost[('before', 'result.update(await self._merkle_proof(cp_height, last_height))')] = [
        'check("proof-is-for-the-last-header-returned", last_height == start_height + result["count"] - 1)']
    b.props = sorted(set(b.props) | {'C11'})
