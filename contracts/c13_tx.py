'''C13 - transactions are parsed exactly (electrumx/lib/tx.py readers, electrumx/lib/util.py packers).

Buffers are byte sequences; cursor >= 0.  Each fixed-width reader raises struct.error exactly when the field
does not lie inside the buffer; read_varint raises IndexError when the cursor is at/after the end.  A parse that
returns normally has consumed only bytes that exist (read_tx: new cursor <= len(buf)) - together with the
cursor being a function of the bytes read this is why a truncated buffer cannot yield a transaction.
Round trip: read_varint(pack_varint(n) + rest, 0) == (n, len(pack_varint(n))) for 0 <= n < 2**64 (harness over the
real functions).'''
from pyvc.dsl import *
from pyvc.builtins import KJ, KBytes, KStr

T = 'electrumx/lib/tx.py:'
U = 'electrumx/lib/util.py:'


def register(reg):
    reg.specfun('leu_dec', [KBytes], Int)
    reg.specfun('les_dec', [KBytes], Int)
    reg.specfun('leu_enc', [Int, Int], KBytes)
    fixed = {'read_le_uint16': (2, 'leu_dec'), 'read_le_uint32': (4, 'leu_dec'), 'read_le_uint64': (8, 'leu_dec'),
             'read_le_int32': (4, 'les_dec'), 'read_le_int64': (8, 'les_dec')}
    for name, (w, dec) in fixed.items():
        reg.contract(T + name, params={'buf': KBytes, 'cursor': Int}, returns=Tuple(Int, Int),
                     requires=['cursor >= 0'],
                     raises={'struct.error': [f'cursor + {w} > len(buf)']},
                     ensures=[('inside', f'cursor + {w} <= len(buf)'), ('cursor', f'result[1] == cursor + {w}'),
                              ('value', f'result[0] == {dec}(buf[cursor:cursor + {w}])'),
                              ('range', (f'0 <= result[0] and result[0] < {256 ** w}' if dec == 'leu_dec' else
                                         f'{-(256 ** w) // 2} <= result[0] and result[0] < {(256 ** w) // 2}'))],
                     props=['C13'])
    VARINT = ('let(lambda c=old(cursor): ite(buf[c] < 253, result[0] == buf[c] and result[1] == c + 1,'
              ' ite(buf[c] == 253, result[0] == leu_dec(buf[c + 1:c + 3]) and result[1] == c + 3,'
              ' ite(buf[c] == 254, result[0] == leu_dec(buf[c + 1:c + 5]) and result[1] == c + 5,'
              ' result[0] == leu_dec(buf[c + 1:c + 9]) and result[1] == c + 9))))')
    reg.contract(T + 'read_varint', params={'buf': KBytes, 'cursor': Int}, returns=Tuple(Int, Int),
                 requires=['cursor >= 0'],
                 raises={'IndexError': ['old(cursor) >= len(buf)'], 'struct.error': ['old(cursor) < len(buf)']},
                 ensures=[('inside', 'result[1] <= len(buf) and old(cursor) < len(buf)'), ('decode', VARINT),
                          ('nonneg', 'result[0] >= 0')],
                 props=['C13'])
    reg.contract(T + 'read_varbytes', params={'buf': KBytes, 'cursor': Int}, returns=Tuple(KBytes, Int),
                 requires=['cursor >= 0'], raises={'IndexError': [], 'struct.error': []},
                 ensures=[('advances', 'result[1] > old(cursor)'),
                          ('complete-if-inside', 'let(lambda c=old(cursor): implies(result[1] <= len(buf), len(result[0]) == result[1] - c - 1'
                                                 ' or len(result[0]) == result[1] - c - 3 or len(result[0]) == result[1] - c - 5'
                                                 ' or len(result[0]) == result[1] - c - 9))')],
                 props=['C13'])
    TXIN = Tuple(KBytes, Int, KBytes, Int, fields=['prev_hash', 'prev_idx', 'script', 'sequence'], tname='TxInput')
    TXOUT = Tuple(Int, KBytes, fields=['value', 'pk_script'], tname='TxOutput')
    reg.contract(T + 'read_input', params={'buf': KBytes, 'cursor': Int}, returns=Tuple(TXIN, Int),
                 requires=['cursor >= 0'], raises={'IndexError': [], 'struct.error': []},
                 ensures=[('inside', 'result[1] <= len(buf)'), ('advances', 'result[1] >= old(cursor) + 41'),
                          ('hash32', 'len(result[0][0]) == 32')],
                 props=['C13'])
    reg.contract(T + 'read_output', params={'buf': KBytes, 'cursor': Int}, returns=Tuple(TXOUT, Int),
                 requires=['cursor >= 0'], raises={'IndexError': [], 'struct.error': []},
                 ensures=[('advances', 'result[1] >= old(cursor) + 9')],
                 props=['C13'])

    # packers
    reg.contract(U + 'pack_varint', params={'n': Int}, returns=KBytes,
                 requires=['n >= 0'], raises={'struct.error': ['n >= 18446744073709551616']},
                 ensures=[('width', 'len(result) == ite(n < 253, 1, ite(n < 65536, 3, ite(n < 4294967296, 5, 9)))'),
                          ('tag', 'result[0] == ite(n < 253, n, ite(n < 65536, 253, ite(n < 4294967296, 254, 255)))')],
                 props=['C13'])
    reg.harness('varint_round_trip', 'electrumx/lib/tx.py',
                params={'n': Int, 'rest': KBytes},
                requires=['0 <= n and n < 18446744073709551616'],
                body='''
from electrumx.lib.util import pack_varint
b = pack_varint(n) + rest
v, c = read_varint(b, 0)
''',
                inline=[U + 'pack_varint', T + 'read_varint', T + 'read_le_uint16', T + 'read_le_uint32', T + 'read_le_uint64'],
                ensures=[('value', 'v == n'), ('consumed', 'c == len(b) - len(rest)')],
                props=['C13'])

    Item = reg.usort('TxItem')
    reg.contract('ext:tx_reader', params={'buf': KBytes, 'cursor': Int}, returns=Tuple(Item, Int),
                 requires=['cursor >= 0'], raises={'IndexError': [], 'struct.error': []},
                 ensures=['result[1] > cursor'],
                 trusted='A-CALLEE: the reader argument of read_many is read_input or read_output (contracts above: both advance the cursor)')
    reg.contract(T + 'read_many', params={'buf': KBytes, 'cursor': Int, 'reader': Callable('ext:tx_reader')},
                 returns=Tuple(List(Item), Int), requires=['cursor >= 0'],
                 raises={'IndexError': [], 'struct.error': []},
                 locals={'items': List(Item)},
                 ensures=[('advances', 'result[1] > old(cursor)'), ('count', 'len(result[0]) >= 0')],
                 loops={0: LoopSpec('for _ in range(count)',
                                    invariants=[('cursor', 'cursor > old(cursor)'), ('items', 'len(items) == _i')],
                                    modifies=['items'])},
                 props=['C13'])
    reg.contract(T + 'read_tx', params={'buf': KBytes, 'cursor': Int}, requires=['cursor >= 0'],
                 raises={'IndexError': [], 'struct.error': []},
                 ensures=[('consumed-bytes-exist', 'result[1] <= len(buf)'),
                          ('advances', 'result[1] >= old(cursor) + 10')],
                 props=['C13'])
