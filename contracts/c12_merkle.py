'''C12 - Merkle (electrumx/lib/merkle.py): branch_length, tree_depth, branch_and_root, root,
root_from_proof, level, branch_and_root_from_level.

Specification (written from the statement: Bitcoin's merkle tree).  Hashes are values of an
opaque sort Val with an uninterpreted concatenation `cat` and an uninterpreted hash H (the class is
parametric in hash_func).  Lists are (array, length) pairs.
  nxt(l)          next level up: pairs hashed, last element duplicated when the length is odd
  mroot(l, d)     root of the tree of depth d over l  (mroot(l,0) = l[0]; mroot(l,d+1) = mroot(nxt(l),d))
  foldp(h, br, i) fold a branch from leaf h at index i  (root_from_proof's definition)
  shr(a, k)       a >> k   (shr(a,0) = a; shr(a,k+1) = shr(a,k) div 2)
'''
from pyvc.dsl import *
from pyvc.values import KKindSpecFun

M = 'electrumx/lib/merkle.py:Merkle'


def register(reg):
    Val = reg.usort('Val', ops={'+': 'cat'}, consts={b'*': 'STAR'}, lenf='vlen')
    LV = List(Val)
    reg.specfun('cat', [Val, Val], Val)
    reg.specfun('H', [Val], Val)
    reg.specfun('nxt', [LV], LV)
    reg.specfun('mroot', [LV, Int], Val)
    reg.specfun('foldp', [Val, LV, Int], Val)
    reg.specfun('shr', [Int, Int], Int)
    reg.specfun('clog2', [Int], Int)

    # ---- arithmetic: pow2 (built into the engine: pow2(0)=1, pow2(k+1)=2*pow2(k)) is monotone -----
    reg.lemma('pow2_mono_base', {'a': Int}, ['a >= 0'], 'pow2(a) <= pow2(a + 0)', props=['C12'])
    reg.lemma('pow2_mono_step', {'a': Int, 'd': Int}, ['a >= 0', 'd >= 0', 'pow2(a) <= pow2(a + d)'],
              'pow2(a) <= pow2(a + d + 1)', props=['C12'])
    reg.induction('pow2_mono', {'a': Int, 'b': Int}, ['0 <= a', 'a <= b'], 'pow2(a) <= pow2(b)',
                  base='pow2_mono_base', step='pow2_mono_step', props=['C12'])
    # clog2(n) = ceil(log2 n): the least k with 2^k >= n (exists and is unique for n >= 1)
    reg.axiom('clog2_def', {'n': Int}, 'implies(n >= 1, clog2(n) >= 0 and pow2(clog2(n)) >= n'
                                       ' and (clog2(n) == 0 or pow2(clog2(n) - 1) < n))')

    # ---- definitions (defining equations of the spec functions; instantiated explicitly) ----
    reg.axiom('shr_zero', {'a': Int}, 'shr(a, 0) == a')
    reg.axiom('shr_succ', {'a': Int, 'k': Int}, 'implies(k >= 0, shr(a, k + 1) == div(shr(a, k), 2))')
    reg.axiom('nxt_def', {'l': LV},
              'len(nxt(l)) == div(len(l) + 1, 2) and '
              'forall(lambda j=Int: implies(0 <= j and 2 * j < len(l), nxt(l)[j] == '
              ' H(cat(l[2 * j], ite(2 * j + 1 < len(l), l[2 * j + 1], l[len(l) - 1])))), pattern=[nxt(l)[j]])')
    reg.axiom('mroot_base', {'l': LV}, 'implies(len(l) == 1, mroot(l, 0) == l[0])')
    reg.axiom('mroot_unfold', {'l': LV, 'd': Int}, 'implies(d >= 1 and len(l) >= 1, mroot(l, d) == mroot(nxt(l), d - 1))')
    reg.axiom('foldp_nil', {'h': Val, 'br': LV, 'i': Int}, 'implies(len(br) == 0, foldp(h, br, i) == h)')
    reg.axiom('foldp_snoc', {'h': Val, 'br': LV, 'e': Val, 'i': Int},
              'foldp(h, snoc(br, e), i) == ite(mod(shr(i, len(br)), 2) == 1,'
              ' H(cat(e, foldp(h, br, i))), H(cat(foldp(h, br, i), e)))')
    # spec functions over lists depend on the first len(l) elements only (lists are values)
    reg.axiom('mroot_ext', {'a': LV, 'b': LV, 'd': Int},
              'implies(len(a) == len(b) and forall(lambda j=Int: implies(0 <= j and j < len(a), a[j] == b[j])),'
              ' mroot(a, d) == mroot(b, d))')
    reg.axiom('foldp_ext', {'h': Val, 'a': LV, 'b': LV, 'i': Int},
              'implies(len(a) == len(b) and forall(lambda j=Int: implies(0 <= j and j < len(a), a[j] == b[j])),'
              ' foldp(h, a, i) == foldp(h, b, i))')

    reg.lemma('clog2_unique', {'n': Int, 'r': Int},
              ['n >= 1', 'r >= 0', 'pow2(r) >= n', 'r == 0 or pow2(r - 1) < n'], 'r == clog2(n)',
              proof=['use("clog2_def", n)', 'use("pow2_mono", r, clog2(n) - 1)', 'use("pow2_mono", clog2(n), r - 1)'],
              props=['C12'])

    reg.cls(M, fields={'hash_func': KKindSpecFun('H')})

    # ---- branch_length: exactly ceil(log2 n) -------------------------------------------------
    reg.contract(M + '.branch_length', params={'hash_count': Int},
                 raises={'ValueError': ['hash_count < 1']},
                 ensures=[('pre', 'hash_count >= 1'), ('nonneg', 'result >= 0'),
                          ('upper', 'pow2(result) >= hash_count'),
                          ('least', 'result == 0 or pow2(result - 1) < hash_count')],
                 returns=Int, props=['C12', 'C11'])
    reg.contract(M + '.tree_depth', params={'hash_count': Int},
                 raises={'ValueError': ['hash_count < 1']},
                 ensures=[('pre', 'hash_count >= 1'), ('def', 'result >= 1 and pow2(result - 1) >= hash_count'
                                                              ' and (result == 1 or pow2(result - 2) < hash_count)')],
                 returns=Int, props=['C12', 'C11'])

    # ---- root_from_proof: the definition of folding a branch ------------------------------------
    reg.contract(M + '.root_from_proof', params={'hash_': Val, 'branch': LV, 'index': Int},
                 raises={'ValueError': ['shr(old(index), len(branch)) != 0']},
                 ensures=[('range', 'shr(old(index), len(branch)) == 0'),
                          ('fold', 'result == foldp(old(hash_), branch, old(index))')],
                 returns=Val,
                 loops={0: LoopSpec('for elt in branch',
                                    invariants=[('fold', 'hash_ == foldp(old(hash_), take(branch, _i), old(index))'),
                                                ('index', 'index == shr(old(index), _i)')],
                                    ghost_pre=['use("foldp_nil", hash_, take(branch, 0), index)', 'use("shr_zero", index)'],
                                    ghost_begin=['use("foldp_snoc", old(hash_), take(branch, _i), elt, old(index))',
                                                 'use("shr_succ", old(index), _i)'])},
                 props=['C12', 'C11'])

    # ---- branch_and_root ----------------------------------------------------------------------
    CL = 'clog2(len(old(hashes)))'
    L = 'ite(is_none(old(length)), ' + CL + ', old(length))'
    reg.contract(
        M + '.branch_and_root',
        params={'hashes': LV, 'index': Int, 'length': Opt(Int), 'tsc_format': Bool},
        raises={'ValueError': ['not (0 <= old(index) and old(index) < len(old(hashes)))'
                               ' or (not is_none(old(length)) and old(length) < ' + CL + ')']},
        returns=Tuple(LV, Val), ghost_results={'plain': LV, 'node': LV},
        locals={'branch': LV},
        ensures=[
            ('in-range', '0 <= old(index) and old(index) < len(old(hashes))'),
            ('length-ok', 'is_none(old(length)) or old(length) >= ' + CL),
            ('length', 'len(result[0]) == ' + L),
            ('root', 'result[1] == mroot(old(hashes), ' + L + ')'),
            ('index-fits', 'shr(old(index), ' + L + ') == 0'),
            ('plain-folds', 'foldp(old(hashes)[old(index)], plain, old(index)) == result[1] and len(plain) == len(result[0]) and len(node) == len(plain)'),
            ('classic', 'implies(not tsc_format, forall(lambda j=Int: implies(0 <= j and j < len(plain), result[0][j] == plain[j])))'),
            ('tsc', 'forall(lambda j=Int: implies(0 <= j and j < len(plain), result[0][j] == plain[j]'
                    ' or (result[0][j] == STAR and plain[j] == node[j])))'),
        ],
        ghost={
            'entry': ['plain = listof(Val)', 'node = listof(Val)', 'index0 = index', 'use("clog2_def", len(hashes))'],
            ('after', 'hashes = list(hashes)'): ['hashes0 = copy(hashes)'],
            ('after', 'natural_length = self.branch_length(len(hashes))'): ['use("clog2_unique", len(hashes), natural_length)'],
            # what the classic format appends at this level (the sibling), and the node on the index path
            ('before', 'branch.append(*)'): ['plain_old = copy(plain)', 'plain.append(hashes[index ^ 1])', 'node.append(hashes[index])'],
            ('before', 'hashes = [hash_func(hashes[n] + hashes[n + 1]) for n in range(0, len(hashes), 2)]'):
                ['hp = copy(hashes)'],
        },
        loops={0: LoopSpec(
            'for _ in range(length)',
            var_kinds={},
            invariants=[
                ('size', 'len(hashes) >= 1 and len(hashes) <= pow2(length - _i)'),
                ('idx', '0 <= index and index < len(hashes) and index == shr(index0, _i)'),
                ('root', 'mroot(hashes, length - _i) == mroot(hashes0, length)'),
                ('lens', 'len(branch) == _i and len(plain) == _i and len(node) == _i'),
                ('fold', 'foldp(hashes0[index0], plain, index0) == hashes[index]'),
                ('classic', 'implies(not tsc_format, forall(lambda j=Int: implies(0 <= j and j < _i, branch[j] == plain[j])))'),
                ('tsc', 'forall(lambda j=Int: implies(0 <= j and j < _i, branch[j] == plain[j]'
                        ' or (branch[j] == STAR and plain[j] == node[j])))'),
            ],
            modifies=['plain', 'node'],
            ghost_pre=['use("foldp_nil", hashes0[index0], plain, index0)', 'use("shr_zero", index0)',
                       'use("pow2_mono", natural_length, length)'],
            ghost_begin=['h_in = copy(hashes)', 'idx_in = index'],
            ghost_end=[
                'use("shr_succ", index0, _i - 1)',
                'use("foldp_snoc", hashes0[index0], plain_old, plain[_i - 1], index0)',
                'use("nxt_def", h_in)',
                'use("mroot_unfold", h_in, length - (_i - 1))',
                'use("mroot_ext", hashes, nxt(h_in), length - _i)',
            ],
            ghost_exit=['use("mroot_base", hashes)'],
        )},
        props=['C12', 'C11'])

    register_cache(reg)
    reg.contract(M + '.root', params={'hashes': LV, 'length': Opt(Int)},
                 raises={'ValueError': ['len(hashes) == 0 or (not is_none(length) and length < clog2(len(hashes)))']},
                 ensures=[('nonempty', 'len(hashes) >= 1'),
                          ('root', 'result == mroot(hashes, ite(is_none(length), clog2(len(hashes)), length))')],
                 returns=Val, props=['C12', 'C11'])


MC = 'electrumx/lib/merkle.py:MerkleCache'


def register_cache(reg):
    Val = reg.kinds['Val']
    Opaque = reg.usort('Opaque')
    reg.cls(MC, fields={'merkle': Obj(M), 'length': Int, 'level': List(Val), 'depth_higher': Int, 'initialized': Opaque},
            inv=[('shape', 'self.length >= 0 and self.depth_higher >= 0')])
    reg.inline.add(MC + '._leaf_start')
    reg.inline.add(MC + '._segment_length')
    # truncate: argument errors exactly as coded; never extends; covers no more than `length` hashes afterwards
    reg.contract(MC + '.truncate', params={'length': Int},
                 raises={'ValueError': ['old(length) <= 0']},
                 modifies=['self.length', 'self.level'],
                 ensures=[('positive', 'old(length) > 0'),
                          ('covers-no-more-than-asked', 'self.length <= old(length)'),
                          ('noop-if-not-shorter', 'implies(old(length) >= old(self.length), self.length == old(self.length) and '
                                                  'len(self.level) == len(old(self.level)))'),
                          ('aligned-down', 'implies(old(length) < old(self.length), self.length == '
                                           'div(old(length), pow2(self.depth_higher)) * pow2(self.depth_higher) and '
                                           'len(self.level) <= len(old(self.level)))'),
                          ('prefix-kept', 'forall(lambda j=Int: implies(0 <= j and j < len(self.level), self.level[j] == old(self.level)[j]))')],
                 props=['C12', 'C11', 'C03'])
