'''C04 / C05 - DB.flush_utxo_db: the UTXO deletes, the UTXO adds, the undo information and the state record reach the UTXO
database in ONE atomic write batch.

  one-atomic-commit        exactly one durable write event on the UTXO database (g_commits counts batch commits and direct
                           puts), none on the history database
  state-with-the-rows      the state record of the adopted state is among the operations of that batch (it is put through
                           write_utxo_state(batch) before the batch is left), so no crash point separates rows from state
  state-adopted, caches-emptied
Which rows are written (key layout of 'h' / 'u' / 'U') is NOT decided here: bounded stand-in of C01/C03.
'''
from pyvc.dsl import *
from pyvc.builtins import KJ, KBytes, KStr

DBK = 'electrumx/server/db.py:DB'
KV = 'ext:KV'
BATCH = 'ext:Batch'
ST = 'ext:DBState'
FD = 'ext:FlushData'
UNDO = List(Tuple(List(KBytes), Int))


def register(reg):
    reg.specfun('state_rec', [Int, Int, Int, Int, KBytes], KBytes)     # serialised state record (T-STR: repr of a dict)
    reg.classes[ST].methods['copy'] = ST + '.copy'
    reg.contract(ST + '.copy', params={'self': Obj(ST)}, returns=Obj(ST), assumes_inv=False, maintains_inv=False,
                 ensures=['result.height == self.height and result.tx_count == self.tx_count and result.chain_size == self.chain_size '
                          'and result.utxo_count == self.utxo_count and result.flush_count == self.flush_count and result.tip == self.tip'],
                 trusted='T-ATTRS: ChainState.copy() is copy.copy of an attrs object: a new object with equal fields')
    reg.cls(FD, fields={'state': Obj(ST), 'headers': List(KBytes), 'block_tx_hashes': List(KBytes), 'undo_infos': UNDO,
                        'adds': Dict(KBytes, KBytes), 'deletes': List(KBytes)})
    REC = 'state_rec(self.state.height, self.state.tx_count, self.state.flush_count, self.state.utxo_count, self.state.tip)'
    reg.contract(DBK + '.write_utxo_state', params={'batch': Obj(BATCH)}, raises={}, modifies=['batch.g_ops'],
                 assumes_inv=False, maintains_inv=False,
                 ensures=['batch.g_ops == store(old(batch.g_ops), b"state", ' + REC + ')'],
                 trusted='A-CALLEE: DB.write_utxo_state(batch) puts repr() of the state fields under b"state" into the batch it is '
                         'given (T-STR: repr/encode of a dict is a function of its values)')
    # flush_undo_infos(batch_put, undo_infos): batch_put is the bound `put` of the batch gb (ghost parameter: the caller names the
    # batch); every (undo_info, height) pair is put under b'U' + be32(height), nothing else is touched (C15, C03)
    reg.contract(
        DBK + '.flush_undo_infos', params={'batch_put': Callable(BATCH + '.put', bind='gb'), 'undo_infos': UNDO},
        ghost_params={'gb': Obj(BATCH)},
        requires=[('heights', 'forall(lambda j=Int: implies(0 <= j and j < len(undo_infos), 0 <= undo_infos[j][1] and undo_infos[j][1] < 4294967296))')],
        raises={}, assumes_inv=False, maintains_inv=False, modifies=['gb.g_ops'],
        ensures=[('every-block-gets-its-undo-row', 'forall(lambda j=Int: implies(0 <= j and j < len(undo_infos), '
                                                   'concat(b"U", beu_enc(undo_infos[j][1], 4)) in gb.g_ops and '
                                                   'not is_none(lookup(gb.g_ops, concat(b"U", beu_enc(undo_infos[j][1], 4))))))'),
                 ('only-undo-rows', 'forall(lambda k=Bytes: implies(not (exists(lambda j=Int: 0 <= j and j < len(undo_infos) and '
                                    'k == concat(b"U", beu_enc(undo_infos[j][1], 4)))), (k in gb.g_ops) == (k in old(gb.g_ops)) and '
                                    'implies(k in gb.g_ops, lookup(gb.g_ops, k) == lookup(old(gb.g_ops), k))))')],
        loops={0: LoopSpec('for undo_info, height in undo_infos',
                           invariants=[('done', 'forall(lambda j=Int: implies(0 <= j and j < _i, concat(b"U", beu_enc(undo_infos[j][1], 4)) in gb.g_ops and '
                                                'not is_none(lookup(gb.g_ops, concat(b"U", beu_enc(undo_infos[j][1], 4))))))'),
                                       ('only', 'forall(lambda k=Bytes: implies(not (exists(lambda j=Int: 0 <= j and j < _i and '
                                                'k == concat(b"U", beu_enc(undo_infos[j][1], 4)))), (k in gb.g_ops) == (k in old(gb.g_ops)) and '
                                                'implies(k in gb.g_ops, lookup(gb.g_ops, k) == lookup(old(gb.g_ops), k))))')],
                           modifies=['gb.g_ops'])},
        portfolio=True, props=['C15', 'C04'])
    reg.contract(
        DBK + '.flush_utxo_db', params={'flush_data': Obj(FD)}, raises={}, assumes_inv=False, maintains_inv=False,
        requires=[('undo-heights', 'forall(lambda j=Int: implies(0 <= j and j < len(flush_data.undo_infos), '
                                   '0 <= flush_data.undo_infos[j][1] and flush_data.undo_infos[j][1] < 4294967296))')],
        modifies=['self.utxo_db.g_map', 'self.utxo_db.g_commits', 'self.state', 'flush_data.adds', 'flush_data.deletes',
                  'flush_data.undo_infos'],
        ghost={('before', 'self.flush_undo_infos(batch_put, flush_data.undo_infos)'): ['gb = batch']},
        locals={'gb': Obj(BATCH)},
        ensures=[('one-atomic-commit', 'self.utxo_db.g_commits == old(self.utxo_db.g_commits) + 1'),
                 ('history-db-untouched', 'self.history.db.g_commits == old(self.history.db.g_commits) and '
                                          'self.history.db.g_map == old(self.history.db.g_map)'),
                 ('state-with-the-rows', 'b"state" in self.utxo_db.g_map and lookup(self.utxo_db.g_map, b"state") == ' + REC),
                 # whatever the mode the database is open in (syncing or serving): the undo information of every flushed block is
                 # part of the same commit
                 ('undo-information-committed-with-the-rows',
                  'forall(lambda j=Int: implies(0 <= j and j < len(old(flush_data.undo_infos)), '
                  'concat(b"U", beu_enc(old(flush_data.undo_infos)[j][1], 4)) in self.utxo_db.g_map))'),
                 ('state-adopted', 'self.state.height == flush_data.state.height and self.state.tx_count == flush_data.state.tx_count and '
                                   'self.state.flush_count == flush_data.state.flush_count and self.state.utxo_count == flush_data.state.utxo_count'
                                   ' and self.state.tip == flush_data.state.tip'),
                 ('caches-emptied', 'len(flush_data.deletes) == 0 and len(flush_data.undo_infos) == 0 and '
                                    'forall(lambda k=Bytes: k not in flush_data.adds)')],
        loops={0: LoopSpec('for key in sorted(flush_data.deletes)', invariants=[('no-commit-yet', 'self.utxo_db.g_commits == old(self.utxo_db.g_commits)')],
                           modifies=['batch.g_ops']),
               1: LoopSpec('for key, value in flush_data.adds.items()', invariants=[('no-commit-yet', 'self.utxo_db.g_commits == old(self.utxo_db.g_commits)')],
                           modifies=['batch.g_ops'])},
        props=['C04', 'C05', 'C01', 'C15'])

    # ---- DB.flush_backup: order of the two commits of a backed-up block (C05, C03) -------------------------------------------
    HIST = 'electrumx/server/history.py:History'
    reg.classes[DBK].fields['last_flush_state'] = Obj(ST)
    reg.contract(HIST + '.assert_flushed', params={}, raises={'AssertionError': []}, assumes_inv=False, maintains_inv=False,
                 ensures=['forall(lambda x=Bytes: x not in self.unflushed)'],
                 trusted='A-CALLEE: History.assert_flushed is `assert not self.unflushed`')
    reg.contract(HIST + '.backup', params={'hashXs': Set(KBytes), 'tx_count': Int}, raises={},
                 modifies=['self.db.g_map', 'self.db.g_commits', 'self.flush_count'], assumes_inv=False, maintains_inv=False,
                 ensures=['self.db.g_commits == old(self.db.g_commits) + 1'],
                 trusted='A-CALLEE: History.backup trims the histories of the given script hashes in ONE write batch of the history '
                         'database (its content: bounded stand-in of C03)')
    reg.contract(DBK + '.log_flush_stats', params={'prefix': KStr, 'flush_data': Obj(FD), 'elapsed': Real}, returns=Int, raises={},
                 assumes_inv=False, maintains_inv=False, trusted='A-CALLEE: DB.log_flush_stats only logs')
    reg.contract(
        DBK + '.flush_backup', params={'flush_data': Obj(FD), 'touched': Set(KBytes)},
        requires=['flush_data.state.height >= 0', 'flush_data.state.tx_count >= 0',
                  ('touched-are-script-hashes', 'forall(lambda x=Bytes: implies(x in touched, len(x) == 11))'),
                  ('history-rows-are-whole-entries', 'forall(lambda k=Bytes: implies(k in self.history.db.g_map and k != STATEKEY, '
                                                     'mod(len(lookup(self.history.db.g_map, k)), 5) == 0))'),
                  ('undo-heights', 'forall(lambda j=Int: implies(0 <= j and j < len(flush_data.undo_infos), '
                                   '0 <= flush_data.undo_infos[j][1] and flush_data.undo_infos[j][1] < 4294967296))')],
        raises={'AssertionError': ['self.utxo_db.g_commits == old(self.utxo_db.g_commits)',
                                   'self.history.db.g_commits == old(self.history.db.g_commits)']},      # refused before any write
        assumes_inv=False, maintains_inv=False,
        modifies=['self.utxo_db.g_map', 'self.utxo_db.g_commits', 'self.history.db.g_map', 'self.history.db.g_commits',
                  'self.history.flush_count', 'self.state', 'self.last_flush_state', 'self.fs_height', 'self.fs_tx_count',
                  'self.header_mc.length', 'self.header_mc.level', 'flush_data.adds', 'flush_data.deletes', 'flush_data.undo_infos'],
        ghost={('before', 'self.flush_utxo_db(flush_data)'):
               ['check("history-rolled-back-before-the-utxo-commit", self.history.db.g_commits == old(self.history.db.g_commits) + 1 and '
                'self.utxo_db.g_commits == old(self.utxo_db.g_commits))'],
               ('before', 'self.history.backup(touched, flush_data.state.tx_count)'):
               ['check("file-pointers-moved-first", self.fs_height == flush_data.state.height and self.fs_tx_count == flush_data.state.tx_count)']},
        ensures=[('two-commits', 'self.history.db.g_commits == old(self.history.db.g_commits) + 1 and '
                                 'self.utxo_db.g_commits == old(self.utxo_db.g_commits) + 1'),
                 ('state-moved-back', 'self.state.height == flush_data.state.height and self.state.tx_count == flush_data.state.tx_count'),
                 ('pointers', 'self.fs_height == flush_data.state.height and self.fs_tx_count == flush_data.state.tx_count')],
        props=['C05', 'C03'])

    # ---- DB.flush_fs: the meta files are append-only and written BEFORE the pointers move (C04, C02) -----------------------------
    # establishes the file half of A-INV-FILES for the new height: headers and tx hashes of every block up to
    # flush_data.state.height are in the files, everything below the old pointers is untouched
    H80 = 'forall(lambda j=Int: implies(0 <= j and j < len(flush_data.headers), len(flush_data.headers[j]) == 80))'
    reg.contract(
        DBK + '.flush_fs', params={'flush_data': Obj(FD)},
        requires=[('pointers', 'self.fs_height >= -1 and len(self.tx_counts) == flush_data.state.height + 1 and '
                               'flush_data.state.height == self.fs_height + len(flush_data.headers) and '
                               'len(flush_data.block_tx_hashes) == len(flush_data.headers)'),
                  ('counts', 'forall(lambda i=Int: implies(0 <= i and i < len(self.tx_counts), self.tx_counts[i] >= 0)) and '
                             'flush_data.state.tx_count == ite(len(self.tx_counts) > 0, self.tx_counts[len(self.tx_counts) - 1], 0)'),
                  ('headers-are-80-bytes', H80),
                  ('hashes-match-counts', 'len(bjoin(flush_data.block_tx_hashes)) == 32 * (flush_data.state.tx_count - '
                                          'ite(self.fs_height >= 0, self.tx_counts[self.fs_height], 0))'),
                  ('header-bytes', 'len(bjoin(flush_data.headers)) == 80 * len(flush_data.headers)'),
                  ('files-cover-the-old-pointers', 'len(self.headers_file.g_data) >= 80 * (self.fs_height + 1) and '
                                                   'len(self.hashes_file.g_data) >= 32 * ite(self.fs_height >= 0, self.tx_counts[self.fs_height], 0)')],
        raises={}, assumes_inv=False, maintains_inv=False,
        modifies=['self.headers_file.g_data', 'self.tx_counts_file.g_data', 'self.hashes_file.g_data', 'self.fs_height', 'self.fs_tx_count',
                  'flush_data.headers', 'flush_data.block_tx_hashes'],
        ensures=[('pointers-moved', 'self.fs_height == flush_data.state.height and self.fs_tx_count == flush_data.state.tx_count'),
                 ('headers-appended-at-the-old-pointer',
                  'self.headers_file.g_data[0:80 * (old(self.fs_height) + 1)] == old(self.headers_file.g_data)[0:80 * (old(self.fs_height) + 1)] and '
                  'self.headers_file.g_data[80 * (old(self.fs_height) + 1):80 * (old(self.fs_height) + 1) + 80 * len(old(flush_data.headers))] == bjoin(old(flush_data.headers))'),
                 ('hashes-appended-at-the-old-count',
                  'let(lambda p=ite(old(self.fs_height) >= 0, self.tx_counts[old(self.fs_height)], 0): '
                  'self.hashes_file.g_data[0:32 * p] == old(self.hashes_file.g_data)[0:32 * p] and '
                  'self.hashes_file.g_data[32 * p:32 * p + len(bjoin(old(flush_data.block_tx_hashes)))] == bjoin(old(flush_data.block_tx_hashes)))'),
                 ('utxo-and-history-databases-untouched', 'self.utxo_db.g_commits == old(self.utxo_db.g_commits) and '
                                                          'self.history.db.g_commits == old(self.history.db.g_commits)'),
                 ('handed-over', 'len(flush_data.headers) == 0 and len(flush_data.block_tx_hashes) == 0')],
        portfolio=True, props=['C04', 'C02'])

    # ---- DB.flush_dbs: the ORDER of the durable writes of one forward flush (C04) ------------------------------------------------
    # ghost g_log records the durable steps: 1 meta files (flush_fs), 2 history batch (flush_history), 3 UTXO batch incl. state
    # (flush_utxo_db), 4 the second, direct state put.  A crash after any prefix of this order is recoverable (files are only
    # appended above the pointers the state refers to; a history batch without its UTXO batch is scrubbed by clear_excess: lemma
    # history_flush_crash_is_scrubbed); any other order is not - which is why the order is an obligation.
    reg.classes[DBK].ghost['g_log'] = List(Int)
    reg.classes[ST].fields.update({'flush_time': Real, 'sync_time': Real})
    V_FS = Contract(DBK + '.flush_fs', params={'flush_data': Obj(FD)}, raises={'AssertionError': []}, assumes_inv=False, maintains_inv=False,
                    modifies=['self.g_log', 'self.fs_height', 'self.fs_tx_count', 'self.headers_file.g_data', 'self.hashes_file.g_data',
                              'self.tx_counts_file.g_data', 'flush_data.headers', 'flush_data.block_tx_hashes'],
                    ensures=['self.g_log == snoc(old(self.g_log), 1)'],
                    trusted='flush_fs writes the meta files only (proved: d04 flush_fs, clause utxo-and-history-databases-untouched); its '
                            'preconditions are the assertions it makes itself')
    V_HIST = Contract(DBK + '.flush_history', params={}, raises={}, assumes_inv=False, maintains_inv=False,
                      modifies=['self.g_log', 'self.history.flush_count', 'self.history.db.g_map', 'self.history.db.g_commits',
                                'self.history.unflushed', 'self.history.unflushed_count'],
                      ensures=['self.g_log == snoc(old(self.g_log), 2)', 'self.history.flush_count == old(self.history.flush_count) + 1'],
                      trusted='flush_history is History.flush: one atomic history batch, flush count + 1 (proved: c01 History.flush)')
    V_UTXO = Contract(DBK + '.flush_utxo_db', params={'flush_data': Obj(FD)}, raises={}, assumes_inv=False, maintains_inv=False,
                      modifies=['self.g_log', 'self.state', 'self.utxo_db.g_map', 'self.utxo_db.g_commits', 'flush_data.adds',
                                'flush_data.deletes', 'flush_data.undo_infos'],
                      ensures=['self.g_log == snoc(old(self.g_log), 3)'],
                      trusted='flush_utxo_db is one atomic UTXO batch with the state record inside (proved: d04 flush_utxo_db)')
    V_STATE = Contract(DBK + '.write_utxo_state', params={'batch': Obj(KV)}, raises={}, assumes_inv=False, maintains_inv=False,
                       modifies=['self.g_log', 'batch.g_map', 'batch.g_commits'],
                       ensures=['self.g_log == snoc(old(self.g_log), 4)'],
                       trusted='write_utxo_state(self.utxo_db) is one direct put of the state record (T-LDB put)')
    reg.contract(
        DBK + '.flush_dbs', params={'flush_data': Obj(FD), 'flush_utxos': Bool, 'size_remaining': Real},
        # ZeroDivisionError: the throughput statistics after the writes divide by (interval + 0.01); time.time() is modelled as an
        # arbitrary real, so a clock stepping back by exactly 10 ms is not excluded - it cannot affect what was written
        raises={'AssertionError': [], 'ZeroDivisionError': []}, assumes_inv=False, maintains_inv=False,
        modifies=['self.g_log', 'self.state', 'self.last_flush_state', 'self.fs_height', 'self.fs_tx_count', 'self.headers_file.g_data',
                  'self.hashes_file.g_data', 'self.tx_counts_file.g_data', 'self.history.flush_count', 'self.history.db.g_map',
                  'self.history.db.g_commits', 'self.history.unflushed', 'self.history.unflushed_count', 'self.utxo_db.g_map',
                  'self.utxo_db.g_commits', 'flush_data.headers', 'flush_data.block_tx_hashes', 'flush_data.adds', 'flush_data.deletes',
                  'flush_data.undo_infos', 'flush_data.state.flush_count', 'flush_data.state.flush_time', 'flush_data.state.sync_time'],
        views={DBK + '.flush_fs': V_FS, DBK + '.flush_history': V_HIST, DBK + '.flush_utxo_db': V_UTXO, DBK + '.write_utxo_state': V_STATE},
        ghost={('before', 'self.flush_utxo_db(flush_data)'):
               ['check("utxo-state-carries-the-flush-count-of-the-history-just-flushed", flush_data.state.flush_count == self.history.flush_count)',
                'check("files-then-history-before-the-utxo-commit", self.g_log == snoc(snoc(old(self.g_log), 1), 2))']},
        ensures=[('nothing-to-flush-nothing-written', 'implies(old(flush_data.state.height) == old(self.state.height), self.g_log == old(self.g_log))'),
                 ('history-only-flush', 'implies(old(flush_data.state.height) != old(self.state.height) and not flush_utxos, '
                                        'self.g_log == snoc(snoc(old(self.g_log), 1), 2))'),
                 ('full-flush', 'implies(old(flush_data.state.height) != old(self.state.height) and flush_utxos, '
                                'self.g_log == snoc(snoc(snoc(snoc(old(self.g_log), 1), 2), 3), 4))')],
        props=['C04'])
