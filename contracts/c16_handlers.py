'''C16 (part 2) - the Electrum protocol handlers of ElectrumX (electrumx/server/session.py).

Every handler registered in set_request_handlers is verified for arbitrary JSON arguments:
  * the only exception classes that can escape are the ones aiorpcx turns into protocol error
    replies (RPCError, ReplyAndDisconnect) or the cost limiter's ExcessiveSessionCostError (T-RPCX);
  * whenever one escapes, the session's subscriptions and status map are unchanged (frame).
Callees are used through their contracts.
'''
from pyvc.dsl import *
from pyvc.builtins import KJ, KBytes, KStr

S = 'electrumx/server/session.py:'
EX = S + 'ElectrumX'
SM = S + 'SessionManager'
PM = 'electrumx/server/peers.py:PeerManager'
DBK = 'electrumx/server/db.py:DB'

ESC = {'RPCError': [], 'ReplyAndDisconnect': [], 'ExcessiveSessionCostError': []}
FRAME = ('self.hashX_subs == old(self.hashX_subs) and self.mempool_statuses == old(self.mempool_statuses)'
         ' and self.subscribe_headers == old(self.subscribe_headers)')


def esc(frame=True):
    return {k: ([FRAME] if frame else []) for k in ESC}


def register(reg):
    Opaque = reg.usort('Opaque')
    NetAddr = reg.usort('NetAddr', attrs={'host': KStr})
    # ---- T-RPCX: aiorpcx session services ------------------------------------------------------
    reg.contract('ext:RPCSession.bump_cost', params={'self': Obj(EX), 'delta': Real},
                 raises={'ExcessiveSessionCostError': []}, assumes_inv=False, maintains_inv=False,
                 trusted='T-RPCX: RPCSession.bump_cost only updates cost counters; may raise ExcessiveSessionCostError')
    reg.contract('ext:RPCSession.remote_address', params={'self': Obj(EX)}, returns=Opt(NetAddr),
                 assumes_inv=False, maintains_inv=False,
                 trusted='T-RPCX: RPCSession.remote_address returns the peer address or None')

    # ---- callees: session manager, database, mempool, peers (contracts assumed in this file;
    #      those verified elsewhere are listed with the property that verifies them) -------------
    A = 'A-CALLEE: '
    reg.contract(SM + '.daemon_request', params={'method': KStr, 'args': KJ}, returns=KJ,
                 raises={'RPCError': []},
                 trusted=A + 'SessionManager.daemon_request maps DaemonError to RPCError; Daemon methods raise nothing else (C18)')
    reg.contract(SM + '.raw_header', params={'height': Int}, returns=KBytes, requires=['height >= 0'],
                 raises={'RPCError': []}, ensures=['len(result) == 80'],
                 trusted=A + 'SessionManager.raw_header (IndexError from DB.raw_header mapped to RPCError)')
    def daemon_error_args(ip):
        # T-DAEMON: a DaemonError carries bitcoind's JSON error object {"code": .., "message": ..}
        from pyvc.values import VDict
        from pyvc.builtins import fresh_str
        d = VDict(None, None, None, None)
        d.rec = {'code': Int.fresh(ip, 'code'), 'message': fresh_str(ip, 'message')}
        return (d,)

    reg.contract(SM + '.broadcast_transaction', params={'raw_tx': KJ}, returns=KJ,
                 raises={'DaemonError': []}, raises_args={'DaemonError': daemon_error_args},
                 trusted=A + 'SessionManager.broadcast_transaction raises only DaemonError (T-DAEMON/T-HTTP; C18)')
    reg.contract(SM + '.limited_history', params={'hashX': KBytes}, returns=Tuple(List(Tuple(KBytes, Int)), Real),
                 raises={'RPCError': []},
                 trusted=A + 'SessionManager.limited_history raises only RPCError (verified under C17)')
    reg.contract(SM + '.merkle_branch_for_tx_hash', params={'height': Int, 'tx_hash': KBytes},
                 requires=['height >= 0'], returns=Tuple(List(KStr), Int, Real), raises={'RPCError': []},
                 trusted=A + 'SessionManager.merkle_branch_for_tx_hash raises only RPCError (C11)')
    reg.contract(SM + '.merkle_branch_for_tx_pos', params={'height': Int, 'tx_pos': Int},
                 requires=['height >= 0', 'tx_pos >= 0'], returns=Tuple(List(KStr), KStr, Real), raises={'RPCError': []},
                 trusted=A + 'SessionManager.merkle_branch_for_tx_pos raises only RPCError (C11)')
    reg.contract(SM + '.tx_hashes_at_blockheight', params={'height': Int}, requires=['height >= 0'],
                 returns=Tuple(List(KBytes), Real), raises={'RPCError': []},
                 trusted=A + 'SessionManager.tx_hashes_at_blockheight raises only RPCError (C10/C11)')
    reg.contract(SM + '.tsc_merkle_proof_for_tx_hash',
                 params={'height': Int, 'tx_hash': KBytes, 'txid_or_tx': KJ, 'target_type': KJ},
                 requires=['height >= 0'], returns=Tuple(Record(index=Int, txid_or_tx=KJ, target=KStr, nodes=KJ), Real),
                 raises={'RPCError': []},
                 trusted=A + 'SessionManager.tsc_merkle_proof_for_tx_hash raises only RPCError and returns the four fields (C11)')
    reg.contract(DBK + '.read_headers', params={'start_height': Int, 'count': Int},
                 requires=['start_height >= 0', 'count >= 0'], returns=Tuple(KBytes, Int),
                 ensures=['result[1] == max(0, min(count, self.state.height + 1 - start_height))',
                          'len(result[0]) == 80 * result[1]'],
                 trusted=A + 'DB.read_headers (verified under C17/C04)')
    reg.contract(DBK + '.header_branch_and_root', params={'length': Int, 'height': Int},
                 requires=['0 <= height', 'height < length', 'length <= self.state.height + 1'],
                 returns=Tuple(List(KBytes), KBytes),
                 trusted=A + 'DB.header_branch_and_root does not raise for height < length <= db height + 1 (C11)')
    reg.contract(PM + '.on_peers_subscribe', params={'is_tor': Bool}, returns=KJ,
                 trusted=A + 'PeerManager.on_peers_subscribe is total (C19)')
    reg.contract(EX + '.is_tor', params={}, returns=Bool, trusted=A + 'ElectrumX.is_tor is total')
    # script-hash level services: data plumbing between DB, mempool and the reply (C01/C02/C08/C10)
    for name, ret in (('get_balance', KJ), ('confirmed_and_unconfirmed_history', KJ), ('unconfirmed_history', KJ),
                      ('hashX_listunspent', KJ)):
        reg.contract(EX + '.' + name, params={'hashX': KBytes}, returns=ret,
                     raises=esc(), modifies=[],
                     trusted=A + f'ElectrumX.{name} raises only protocol errors and leaves subscriptions unchanged')
    reg.contract(EX + '.hashX_subscribe', params={'hashX': KBytes, 'alias': KJ}, returns=Opt(KStr),
                 raises={'RPCError': ['self.hashX_subs == old(self.hashX_subs)'], 'ExcessiveSessionCostError': ['self.hashX_subs == old(self.hashX_subs)']},
                 modifies=['self.hashX_subs', 'self.mempool_statuses'],
                 trusted=A + 'ElectrumX.hashX_subscribe stores the subscription only on success (verified under C17)')

    # ---- the handlers ------------------------------------------------------------------------------
    def handler(name, params, **kw):
        reg.contract(EX + '.' + name, params=params, raises=kw.pop('raises', esc()), props=['C16'], **kw)

    handler('block_header', {'height': KJ, 'cp_height': KJ})
    handler('block_headers', {'start_height': KJ, 'count': KJ, 'cp_height': KJ})
    handler('_merkle_proof', {'cp_height': Int, 'height': Int}, requires=['height >= 0', 'cp_height >= 0'],
            returns=Record(branch=KJ, root=KStr))
    handler('estimatefee', {'_number': KJ})
    handler('relayfee', {})
    handler('ping', {})
    handler('donation_address', {})
    handler('compact_fee_histogram', {})
    handler('peers_subscribe', {})
    handler('headers_subscribe', {}, raises={'ExcessiveSessionCostError': []})
    handler('scripthash_get_balance', {'scripthash': KJ})
    handler('scripthash_get_history', {'scripthash': KJ})
    handler('scripthash_get_mempool', {'scripthash': KJ})
    handler('scripthash_listunspent', {'scripthash': KJ})
    handler('scripthash_subscribe', {'scripthash': KJ},
            raises={'RPCError': ['self.hashX_subs == old(self.hashX_subs)'],
                    'ExcessiveSessionCostError': ['self.hashX_subs == old(self.hashX_subs)']})
    handler('scripthash_unsubscribe', {'scripthash': KJ},
            raises={'RPCError': ['self.hashX_subs == old(self.hashX_subs)'],
                    'ExcessiveSessionCostError': []})
    handler('transaction_broadcast', {'raw_tx': KJ})
    handler('transaction_get', {'tx_hash': KJ, 'verbose': KJ})
    handler('transaction_merkle', {'tx_hash': KJ, 'height': KJ})
    handler('transaction_tsc_merkle', {'tx_hash': KJ, 'height': KJ, 'txid_or_tx': KJ, 'target_type': KJ})
    handler('transaction_id_from_pos', {'height': KJ, 'tx_pos': KJ, 'merkle': KJ})
    handler('add_peer', {'features': KJ})
    handler('subscribe_headers_result', {}, raises={})
    register_more(reg)
    reg.inline.add(EX + '.unsubscribe_hashX')


def register_more(reg):
    Opaque = reg.usort('Opaque')
    U = 'electrumx/lib/util.py:'
    reg.builtin('U.match', params={'self_': KJ, 'text': KStr}, returns=Opt(Opaque),
                trusted='T-RE: compiled-pattern.match(str) returns a match object or None')
    reg.contract(U + 'version_string', params={'ptuple': VarTuple(Int)}, returns=KStr, raises={},
                 loops={0: LoopSpec('while len(ptuple) < 2', invariants=['len(ptuple) >= 0'])},
                 props=['C16'])
    reg.contract(EX + '.set_request_handlers', params={'ptuple': VarTuple(Int)}, raises={},
                 modifies=['self.protocol_tuple', 'self.request_handlers'],
                 ensures=['self.hashX_subs == old(self.hashX_subs)'], props=['C16'])
    reg.contract(EX + '.protocol_version_string', params={}, returns=KStr, raises={}, props=['C16'])
    reg.contract(EX + '.server_version', params={'client_name': KJ, 'protocol_version': KJ},
                 raises=esc(), props=['C16'])
