'''C10 / C11 - the two reorg-sensitive caches of the session manager.

  SessionManager.tx_hashes_at_blockheight   rely/guarantee at its await (havoc of the reorg counter, the epoch and the cache):
        INV  every cached list is the tx-hash list of that height in the CURRENT chain epoch
        is re-established before every suspension, at return and on every raise; the returned list is current as well.
        A list read by the DB while a reorganisation ran must therefore never reach the cache.
  SessionManager._handle_chain_reorgs       each wake-up bumps the reorg counter and empties BOTH caches (tx hashes by height,
        merkle caches by height) without suspending in between.
Assumed (A-RELY-REORG): the reorg handler runs before any session task after a reorganisation (the event is set inside the
block processor's critical section); every other task keeps INV.  ghost g_epoch = number of reorganisations so far;
block_txs(epoch, height) = the tx hashes of the block at that height in that epoch's chain (uninterpreted).
'''
from pyvc.dsl import *
from pyvc.builtins import KJ, KBytes, KStr

S = 'electrumx/server/session.py:'
SM = S + 'SessionManager'
DBK = 'electrumx/server/db.py:DB'


def register(reg):
    Opaque = reg.usort('Opaque')
    reg.specfun('block_txs', [Int, Int], List(KBytes))
    sm = reg.classes[SM]
    sm.fields.update({'_tx_hashes_cache': Dict(Int, List(KBytes)), '_merkle_cache': Dict(Int, Opaque), '_reorg_count': Int,
                      '_tx_hashes_lookups': Int, '_tx_hashes_hits': Int, 'bp': Obj('ext:BPRef')})
    sm.ghost['g_epoch'] = Int
    reg.cls('ext:BPRef', fields={'backed_up_event': Obj('ext:Event')})
    reg.cls('ext:Event', fields={}, methods={'wait': 'ext:Event.wait'})
    reg.contract('ext:Event.wait', params={'self': Obj('ext:Event')}, assumes_inv=False, maintains_inv=False,
                 trusted='T-ASYNCIO: Event.wait returns once the event has been set')
    INV = ('forall(lambda h=Int: implies(h in self._tx_hashes_cache, '
           'lookup(self._tx_hashes_cache, h) == block_txs(self.g_epoch, h)))')
    reg.contract(DBK + '.tx_hashes_at_blockheight', params={'block_height': Int}, returns=List(KBytes),
                 raises={'DBError': []}, assumes_inv=False, maintains_inv=False,
                 ghost_params={'epoch': Int},
                 ensures=['result == block_txs(epoch, block_height)'],
                 trusted='A-CALLEE: DB.tx_hashes_at_blockheight returns the tx hashes of that block in the chain as it stood when '
                         'the read was issued, or raises DBError (fs_tx_hashes_at_blockheight: C02)')
    reg.contract(
        SM + '.tx_hashes_at_blockheight', params={'height': Int}, requires=['height >= 0'],
        returns=Tuple(List(KBytes), Real), raises={'RPCError': [INV]}, assumes_inv=False, maintains_inv=False,
        modifies=['self._tx_hashes_cache', 'self._tx_hashes_lookups', 'self._tx_hashes_hits', 'self._reorg_count', 'self.g_epoch'],
        locals={'epoch': Int},
        # A-RELY-REORG at entry: the task starts in a state in which every other task has kept INV
        ghost={'entry': [f'assume({INV})'],
               ('before', 'tx_hashes = await self.db.tx_hashes_at_blockheight(height)'): ['epoch = self.g_epoch']},
        interference={'havoc': ['self._reorg_count', 'self._tx_hashes_cache', 'self.g_epoch'],
                      'holds': [('cache-coherent', INV)],
                      'rely': [INV, 'self._reorg_count >= pre.self._reorg_count', 'self.g_epoch >= pre.self.g_epoch',
                               '(self.g_epoch == pre.self.g_epoch) == (self._reorg_count == pre.self._reorg_count)']},
        ensures=[('returned-list-is-current', 'result[0] == block_txs(self.g_epoch, height)'),
                 ('cache-coherent', INV)],
        loops={0: LoopSpec('while True', invariants=[('cache-coherent', INV)],
                           modifies=['self._reorg_count', 'self._tx_hashes_cache', 'self.g_epoch'],
                           var_kinds={'tx_hashes': List(KBytes), 'reorg_count': Int})},
        props=['C10', 'C11', 'C16'])

    reg.contract(
        SM + '._handle_chain_reorgs', params={}, noreturn=True, raises={}, assumes_inv=False, maintains_inv=False,
        modifies=['self._reorg_count', 'self._tx_hashes_cache', 'self._merkle_cache'],
        interference={'havoc': ['self._reorg_count', 'self._tx_hashes_cache', 'self._merkle_cache'], 'rely': []},
        ghost={('after', 'await self.bp.backed_up_event.wait()'): ['rc0 = self._reorg_count']}, locals={'rc0': Int},
        loops={0: LoopSpec('while True', invariants=[('true', 'True')],
                           modifies=['self._reorg_count', 'self._tx_hashes_cache', 'self._merkle_cache'],
                           ghost_end=['check("reorg-counted-once-per-wake-up", self._reorg_count == rc0 + 1)',
                                      'check("tx-hash-cache-emptied", forall(lambda h=Int: h not in self._tx_hashes_cache))',
                                      'check("merkle-caches-emptied", forall(lambda h=Int: h not in self._merkle_cache))'])},
        props=['C10', 'C11'])
