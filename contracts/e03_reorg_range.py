'''C03 - BlockProcessor._calc_reorg_range: the fork point found by the doubling look-back is the true fork point.

  ours(h)    the hash of the block the index holds at height h (DB.fs_block_hashes)
  theirs(h)  the hex hash of the daemon's block at height h (Daemon.block_hex_hashes), stable during the search (A-DAEMON-STABLE)
For a natural reorg (count < 0), given that the chains differ at the tip's height:
  * the block just below the returned start is the daemon's block (start > 0 => ours(start - 1) agrees) and the block at
    start is not: since a block hash commits to its predecessor, start is the fork point (that last step - hash chains -
    is the only part of the argument that is written here and not machine-checked);
  * the range ends at the tip: start + count - 1 == height, so exactly the blocks above the fork point are undone;
  * the search terminates (decreases: start).
For a forced reorg of count >= 0 blocks the range is the last `count` blocks.
'''
from pyvc.dsl import *
from pyvc.builtins import KJ, KBytes, KStr

BP = 'electrumx/server/block_processor.py:BlockProcessor'
DBK = 'electrumx/server/db.py:DB'
HASHLIB = 'electrumx/lib/hash.py:'


def register(reg):
    reg.specfun('ours', [Int], KBytes)
    reg.specfun('theirs', [Int], KStr)
    reg.specfun('hexrev', [KBytes], KStr)
    reg.axiom('hexrev_injective', {'a': KBytes, 'b': KBytes}, '(hexrev(a) == hexrev(b)) == (a == b)')
    reg.contract(HASHLIB + 'hash_to_hex_str', params={'x': KBytes}, returns=KStr, raises={}, ensures=['result == hexrev(x)'], pure='hexrev(x)',
                 trusted='T-HEX: hash_to_hex_str(x) = bytes(reversed(x)).hex() is an injective function of x')
    reg.contract(DBK + '.fs_block_hashes', params={'height': Int, 'count': Int}, returns=List(KBytes),
                 requires=['height >= 0', 'count >= 0'], raises={'DBError': []}, assumes_inv=False, maintains_inv=False,
                 ensures=['len(result) == count', 'forall(lambda j=Int: implies(0 <= j and j < count, result[j] == ours(height + j)))'],
                 trusted='A-CALLEE: DB.fs_block_hashes(height, count) returns the hashes of the count indexed blocks from height on, or '
                         'raises DBError (read_headers is proved: d17)')
    reg.cls('ext:BPDaemon', fields={}, methods={'block_hex_hashes': 'ext:BPDaemon.block_hex_hashes', 'cached_height': 'ext:BPDaemon.cached_height'})
    reg.contract('ext:BPDaemon.block_hex_hashes', params={'self': Obj('ext:BPDaemon'), 'first': Int, 'count': Int}, returns=List(KStr),
                 raises={'DaemonError': []}, assumes_inv=False, maintains_inv=False,
                 ensures=['len(result) == count', 'forall(lambda j=Int: implies(0 <= j and j < count, result[j] == theirs(first + j)))'],
                 trusted='A-DAEMON-STABLE: Daemon.block_hex_hashes(first, count) returns the hashes of the daemon\'s best chain, which does '
                         'not change during one fork-point search (C18 proves the call returns the genuine answer)')
    reg.contract('ext:BPDaemon.cached_height', params={'self': Obj('ext:BPDaemon')}, returns=Int, assumes_inv=False, maintains_inv=False,
                 trusted='A-CALLEE: Daemon.cached_height')
    reg.classes[BP].fields['daemon'] = Obj('ext:BPDaemon')

    reg.contract(
        BP + '._calc_reorg_range.<locals>.diff_pos', params={'hashes1': List(KStr), 'hashes2': List(KStr)},
        closure_env={'hashes': List(KBytes)}, returns=Int,
        requires=['len(hashes1) == len(hashes2) and len(hashes) == len(hashes1)'], raises={},
        ensures=[('first-difference', '0 <= result and result <= len(hashes1) and '
                                      'forall(lambda j=Int: implies(0 <= j and j < result, hashes1[j] == hashes2[j])) and '
                                      'implies(result < len(hashes1), hashes1[result] != hashes2[result])')],
        loops={0: LoopSpec('for n, (hash1, hash2) in enumerate(zip(hashes1, hashes2))',
                           invariants=[('equal-so-far', 'forall(lambda j=Int: implies(0 <= j and j < _i, hashes1[j] == hashes2[j]))')])},
        props=['C03'])

    AGREE = 'hexrev(ours({h})) == theirs({h})'
    reg.contract(
        BP + '._calc_reorg_range', params={'count': Int}, returns=Tuple(Int, Int),
        requires=[('indexed', 'self.state.height >= 1'),
                  ('the-tips-differ', 'implies(count < 0, not (' + AGREE.format(h='self.state.height') + '))'),
                  ('forced-count-in-range', 'implies(count >= 0, count <= self.state.height)')],
        raises={'DBError': [], 'DaemonError': []}, assumes_inv=False, maintains_inv=False,
        ensures=[('ends-at-the-tip', 'result[0] + result[1] - 1 == self.state.height and result[0] >= 0 and result[1] >= 0'),
                 ('forced', 'implies(old(count) >= 0, result[1] == old(count))'),
                 ('agree-below-the-start', 'implies(old(count) < 0 and result[0] > 0, ' + AGREE.format(h='result[0] - 1') + ')'),
                 # start == 0 means the search ran out of chain (every compared block down to height 1 differs): the fork is
                 # deeper than the statement's quantifier allows ("chains at least twice as high as the fork is deep"); the
                 # code then returns a range that includes the genesis block - nothing is claimed about that case
                 ('differ-at-the-start', 'implies(old(count) < 0 and result[0] > 0, not (' + AGREE.format(h='result[0]') + '))')],
        loops={0: LoopSpec('while start > 0',
                           invariants=[('window', '0 <= start and start < height and 1 <= count and height == self.state.height'),
                                       ('differ-just-above-the-window', 'not (' + AGREE.format(h='start + count') + ')'),
                                       ('window-ends-below-the-tip', 'start + count <= height')],
                           var_kinds={'hashes': List(KBytes), 'hex_hashes': List(KStr), 'd_hex_hashes': List(KStr), 'n': Int},
                           decreases='start')},
        props=['C03'])

    # _reorg_hashes: the hex hashes handed to the undo loop are those of exactly the blocks start .. height of OUR chain, in
    # increasing height
    reg.contract(
        BP + '._reorg_hashes', params={'count': Int}, returns=Tuple(Int, List(KStr)),
        requires=[('indexed', 'self.state.height >= 1'),
                  ('the-tips-differ', 'implies(count < 0, not (' + AGREE.format(h='self.state.height') + '))'),
                  ('forced-count-in-range', 'implies(count >= 0, count <= self.state.height)')],
        raises={'DBError': [], 'DaemonError': []}, assumes_inv=False, maintains_inv=False,
        ensures=[('our-blocks-from-start-to-the-tip', 'result[0] >= 0 and len(result[1]) == self.state.height - result[0] + 1 and '
                                                      'forall(lambda j=Int: implies(0 <= j and j < len(result[1]), '
                                                      'result[1][j] == hexrev(ours(result[0] + j))))'),
                 ('forced', 'implies(old(count) >= 0, len(result[1]) == old(count))')],
        props=['C03'])

    # ---- reorg_chain: which blocks are re-fetched and undone -----------------------------------------------------------------------
    #  * every (height, hash) pair handed to the block fetcher labels the hash with ITS OWN height (the fetched file and the
    #    undo row looked up for it are keyed by that height) - precondition of OnDiskBlock.prefetch_many, proved at the call;
    #  * the blocks are undone from the tip downwards, each only if it is the current tip.
    OB = 'electrumx/server/block_processor.py:OnDiskBlock'
    PAIRS = List(Tuple(Int, KStr))
    RB = reg.usort('ReorgBlock', attrs={'hex_hash': KStr, 'height': Int})
    reg.classes['ext:BPState'].fields['tip'] = KBytes
    reg.classes[BP].fields['backed_up_event'] = Obj('ext:Event')
    reg.classes['ext:Event'].methods.update({'set': 'ext:Event.set', 'clear': 'ext:Event.clear'})
    for m in ('set', 'clear'):
        reg.contract('ext:Event.' + m, params={'self': Obj('ext:Event')}, assumes_inv=False, maintains_inv=False,
                     trusted='T-ASYNCIO: Event.set / clear')
    reg.contract(OB + '.prefetch_many', params={'daemon': Obj('ext:BPDaemon'), 'pairs': PAIRS, 'kind': KStr},
                 requires=[('every-hash-is-labelled-with-its-own-height',
                            'forall(lambda j=Int: implies(0 <= j and j < len(pairs), pairs[j][1] == hexrev(ours(pairs[j][0]))))')],
                 raises={}, assumes_inv=False, maintains_inv=False,
                 trusted='A-CALLEE: OnDiskBlock.prefetch_many fetches each listed block to the file named after (hash, height) and '
                         'registers it under that height (C18: get_block)')
    reg.contract(OB + '.streamed_block', params={'hex_hash': KStr}, returns=Opt(RB), raises={},
                 assumes_inv=False, maintains_inv=False, ensures=['implies(not is_none(result), some(result).hex_hash == hex_hash)'],
                 trusted='A-CALLEE: OnDiskBlock.streamed_block waits for the fetched block of that hash (None if the fetch failed)')
    BACKUP_VIEW = Contract(BP + '.backup_block', params={'block': RB}, raises={'ChainError': [], 'AssertionError': []},
                 requires=[('the-block-is-the-tip', 'block.hex_hash == hexrev(self.state.tip)')],
                 modifies=['self.state.height', 'self.state.tip', 'self.touched', 'self.utxo_cache', 'self.db_deletes'],
                 assumes_inv=False, maintains_inv=False,
                 ensures=['self.state.height == old(self.state.height) - 1', 'self.state.tip == ours(self.state.height)'],
                 trusted='A-CALLEE: BlockProcessor.backup_block undoes the tip block: height - 1, tip = the previous block (bounded stand-in '
                         'of C03 for its content)')
    reg.contract(BP + '.run_with_lock', params={'coro': KJ}, returns=KJ, assumes_inv=False, maintains_inv=False,
                 trusted='T-ASYNCIO: run_with_lock awaits the job under the state lock (the job has run when it returns)')
    reg.contract(
        BP + '.reorg_chain', params={'count': Int},
        requires=[('indexed', 'self.state.height >= 1 and self.state.tip == ours(self.state.height)'),
                  ('the-tips-differ', 'implies(count < 0, not (' + AGREE.format(h='self.state.height') + '))'),
                  ('forced-count-in-range', 'implies(count >= 0, count <= self.state.height)')],
        raises={'DBError': [], 'DaemonError': [], 'ChainError': [], 'AssertionError': []}, assumes_inv=False, maintains_inv=False,
        modifies=['self.state.height', 'self.state.tip', 'self.touched', 'self.utxo_cache', 'self.db_deletes', 'self.db.state'],
        ensures=[('only-blocks-above-the-fork-point-are-undone', 'self.state.height <= old(self.state.height) and self.state.height >= g_start - 1')],
        ghost={('after', 'start, hex_hashes = await self._reorg_hashes(count)'): ['g_start = start', 'h0 = self.state.height']},
        locals={'g_start': Int, 'h0': Int},
        views={BP + '.backup_block': BACKUP_VIEW},
        loops={0: LoopSpec('for hex_hash in reversed(hex_hashes)',
                           invariants=[('undone-from-the-tip-downwards', 'self.state.height == h0 - _i and self.state.tip == ours(self.state.height)'),
                                       ('range', '_i <= len(hex_hashes) and len(hex_hashes) == h0 - g_start + 1')],
                           modifies=['self.state.height', 'self.state.tip', 'self.touched', 'self.utxo_cache', 'self.db_deletes'])},
        props=['C03'])
