'''C11 - every merkle proof the server hands out verifies against the current chain: session-level components.

  ElectrumX._merkle_proof(cp_height, height): refused unless height <= cp_height <= db height (requests outside the chain).
  SessionManager.merkle_branch_for_tx_pos / merkle_branch_for_tx_hash: a position / hash outside the block is refused with
  a protocol error; otherwise the branch comes from _merkle_branch for exactly that position.
The branch/root mathematics is C12 (Merkle core, proved); the cache under a concurrent reorganisation is the listed known
finding KF-C11-1 (bounded race stand-in, replay/merkle_race.py).
'''
from pyvc.dsl import *
from pyvc.builtins import KJ, KBytes, KStr

S = 'electrumx/server/session.py:'
SM = S + 'SessionManager'
EX = S + 'ElectrumX'


def register(reg):
    c = reg.contracts[EX + '._merkle_proof']
    c.props.append('C11')
    c.ensures.append(('inside-the-chain', 'height <= cp_height and cp_height <= self.db.state.height'))
    reg.contract(SM + '._merkle_branch', params={'height': Int, 'tx_hashes': List(KBytes), 'tx_pos': Int, 'tsc_format': Bool},
                 requires=['0 <= tx_pos and tx_pos < len(tx_hashes)'],
                 returns=Tuple(List(KStr), KBytes, Real), assumes_inv=False, maintains_inv=False,
                 trusted='A-CALLEE: SessionManager._merkle_branch returns the C12 branch/root of tx_hashes at tx_pos (direct path '
                         'below 200 hashes, MerkleCache above; bounded stand-in of C12)')
    reg.contract(SM + '.merkle_branch_for_tx_pos', params={'height': Int, 'tx_pos': Int}, returns=Tuple(List(KStr), KStr, Real),
                 requires=['height >= 0', 'tx_pos >= 0'], raises={'RPCError': []},
                 ensures=[('position-in-block', 'True')], props=['C11', 'C16'])
    reg.contract(SM + '.merkle_branch_for_tx_hash', params={'height': Int, 'tx_hash': KBytes}, returns=Tuple(List(KStr), Int, Real),
                 requires=['height >= 0'], raises={'RPCError': []},
                 ensures=[('position-of-that-hash', 'result[1] >= 0')], props=['C11', 'C16'])
