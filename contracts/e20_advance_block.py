'''C01 / C02 / C15 - BlockProcessor.advance_block: the bookkeeping skeleton of indexing one block.

Proved for every block (any number of transactions, inputs and outputs) that connects to the tip:
  * rule: outputs are classified with the post-genesis rule exactly when block.height >= GENESIS_ACTIVATION (ghost check on the
    function selected);
  * numbering (C02): every transaction of the block - also one that touches no script hash - consumes one tx number: the list
    handed to History.add_unflushed has one entry per transaction and starts at the old tx count; state.tx_count and the new
    tx_counts entry are the old count plus the number of transactions; one tx hash per transaction is recorded;
  * UTXO count (C01): state.utxo_count changes by (outputs put into the cache) - (outputs spent), counted by ghost counters at
    the very statements that put and spend;
  * undo information (C15): one entry per spent output, in spend order; the block's undo information is kept exactly when
    block.height >= cached daemon height - reorg limit + 1;
  * state: height, tip (hash of the block's header), chain size += block size; a block whose header does not point at the tip
    changes nothing but requests a reorganisation (reorg_count = -1).
NOT decided here (bounded stand-in of C01/C02): WHICH cache entries are written for an output (key / value layout) and which
script hashes go into a transaction's list - spend_utxo is used through a summary (A-VIEW), its own contract is proved
separately (e01).
'''
from pyvc.dsl import *
from pyvc.builtins import KJ, KBytes, KStr

BP = 'electrumx/server/block_processor.py:BlockProcessor'
DBK = 'electrumx/server/db.py:DB'
HIST = 'electrumx/server/history.py:History'
TXIN = Tuple(KBytes, Int, KBytes, Int, fields=['prev_hash', 'prev_idx', 'script', 'sequence'], tname='TxInput')
TXIN.cls_key = 'electrumx/lib/tx.py:TxInput'
TXOUT = Tuple(Int, KBytes, fields=['value', 'pk_script'], tname='TxOutput')
TX = Tuple(Int, List(TXIN), List(TXOUT), Int, fields=['version', 'inputs', 'outputs', 'locktime'], tname='Tx')
UNDO = List(Tuple(List(KBytes), Int))


def register(reg):
    reg.inline.add('electrumx/lib/tx.py:TxInput.is_generation')
    reg.cls('ext:Coin', fields={'GENESIS_ACTIVATION': Int},
            methods={'header_prevhash': 'ext:Coin.header_prevhash', 'header_hash': 'ext:Coin.header_hash',
                     'hashX_from_script': 'ext:Coin.hashX_from_script'})
    reg.specfun('hdr_prev', [KBytes], KBytes)
    reg.specfun('hdr_hash', [KBytes], KBytes)
    reg.contract('ext:Coin.header_prevhash', params={'self': Obj('ext:Coin'), 'header': KBytes}, returns=KBytes,
                 ensures=['result == hdr_prev(header)'], assumes_inv=False, maintains_inv=False,
                 trusted='T-COIN: header_prevhash / header_hash are functions of the header bytes')
    reg.contract('ext:Coin.header_hash', params={'self': Obj('ext:Coin'), 'header': KBytes}, returns=KBytes,
                 ensures=['result == hdr_hash(header)'], assumes_inv=False, maintains_inv=False,
                 trusted='T-COIN: header_prevhash / header_hash are functions of the header bytes')
    reg.contract('ext:Coin.hashX_from_script', params={'self': Obj('ext:Coin'), 'script': KBytes}, returns=KBytes,
                 ensures=['len(result) == 11'], assumes_inv=False, maintains_inv=False,
                 trusted='T-HASH: hashX_from_script is the first 11 bytes of sha256(script)')
    reg.cls('ext:IndexBlock', fields={'height': Int, 'header': KBytes, 'size': Int}, ghost={'g_txs': List(Tuple(TX, KBytes))},
            methods={'iter_txs': 'ext:IndexBlock.iter_txs', '__enter__': 'ext:IndexBlock.__enter__', '__exit__': 'ext:IndexBlock.__exit__'})
    reg.contract('ext:IndexBlock.__enter__', params={'self': Obj('ext:IndexBlock')}, assumes_inv=False, maintains_inv=False,
                 trusted='A-CALLEE: OnDiskBlock context entry opens the block file')
    reg.contract('ext:IndexBlock.__exit__', params={'self': Obj('ext:IndexBlock'), 'failed': Bool}, assumes_inv=False, maintains_inv=False,
                 trusted='A-CALLEE: OnDiskBlock context exit closes the block file')
    reg.contract('ext:IndexBlock.iter_txs', params={'self': Obj('ext:IndexBlock')}, returns=List(Tuple(TX, KBytes)),
                 ensures=['result == self.g_txs'], assumes_inv=False, maintains_inv=False,
                 trusted='A-CALLEE: OnDiskBlock.iter_txs yields the (transaction, hash) pairs of the block in order (C13: readers proved, '
                         'chunked streaming bounded)')
    reg.classes['ext:BPDaemon'].ghost['g_h'] = Int
    reg.contracts['ext:BPDaemon.cached_height'].ensures = [('cached', 'result == self.g_h')]
    st = reg.classes['ext:BPState']
    st.fields.update({'tx_count': Int, 'chain_size': Int, 'utxo_count': Int})
    bp = reg.classes[BP]
    bp.fields.update({'coin': Obj('ext:Coin'), 'tx_hashes': List(KBytes), 'undo_infos': UNDO, 'headers': List(KBytes),
                      'reorg_count': Int, 'ok': Bool})
    bp.ghost.update({'g_put': Int, 'g_spent': Int})
    reg.classes['ext:DBEnv']          # reorg_limit
    # summary of spend_utxo for this caller: it returns the 33-byte cache value (hashX 11 + tx number 5 + value 8 ... as stored)
    spend_view = Contract(BP + '.spend_utxo', params={'tx_hash': KBytes, 'tx_idx': Int}, returns=KBytes,
                          raises={'ChainError': []}, modifies=['self.utxo_cache', 'self.db_deletes', 'self.g_spent'],
                          assumes_inv=False, maintains_inv=False,
                          ensures=['self.g_spent == old(self.g_spent) + 1'],
                          trusted='the output exists in the index (valid chain) - preconditions E / U / layout of e01 are not '
                                  're-established here; only "one output spent per call" is used')
    add_view = Contract(HIST + '.add_unflushed', params={'hashXs_by_tx': List(List(KBytes)), 'first_tx_num': Int},
                        raises={}, modifies=['self.unflushed', 'self.unflushed_count'], assumes_inv=False, maintains_inv=False,
                        requires=[('numbers-fit', 'first_tx_num >= 0 and first_tx_num + len(hashXs_by_tx) < 1099511627776')],
                        trusted='effect on the unflushed histories proved separately (d02) for every fixed script hash')
    reg.contract(
        BP + '.advance_block', params={'block': Obj('ext:IndexBlock')},
        requires=[('tx-numbers-fit', '0 <= self.state.tx_count and self.state.tx_count + len(block.g_txs) < 1099511627776'),
                  ('counters', 'self.g_put == 0 and self.g_spent == 0'),
                  ('output-fields-fit', 'forall(lambda t=Int: implies(0 <= t and t < len(block.g_txs), '
                                        'forall(lambda o=Int: implies(0 <= o and o < len(block.g_txs[t][0].outputs), '
                                        '0 <= block.g_txs[t][0].outputs[o].value and block.g_txs[t][0].outputs[o].value < 18446744073709551616 and o < 4294967296))))')],
        raises={'ChainError': []}, assumes_inv=False, maintains_inv=False,
        modifies=['self.state.height', 'self.state.tip', 'self.state.chain_size', 'self.state.utxo_count', 'self.state.tx_count',
                  'self.utxo_cache', 'self.db_deletes', 'self.touched', 'self.tx_hashes', 'self.undo_infos', 'self.headers',
                  'self.reorg_count', 'self.ok', 'self.db.tx_counts', 'self.db.history.unflushed', 'self.db.history.unflushed_count',
                  'self.g_put', 'self.g_spent'],
        views={BP + '.spend_utxo': spend_view, HIST + '.add_unflushed': add_view},
        locals={'hashXs_by_tx': List(List(KBytes)), 'tx_hashes': List(KBytes), 'undo_info': List(KBytes), 'hashXs': List(KBytes)},
        ghost={
            ('after', 'is_unspendable = *'):
                ['check("post-genesis-rule-exactly-from-the-activation-height", '
                 'fn_is(is_unspendable, "is_unspendable_genesis") == (block.height >= self.coin.GENESIS_ACTIVATION) and '
                 'fn_is(is_unspendable, "is_unspendable_legacy") == (block.height < self.coin.GENESIS_ACTIVATION))'],
            ('after', 'put_utxo(tx_hash + to_le_uint32(idx), hashX + tx_numb + to_le_uint64(txout.value))'):
                ['self.g_put = self.g_put + 1',
                 # the cache entry of an output: keyed by the hash of ITS transaction and ITS position in that transaction's output
                 # list (not its position among the spendable ones), valued hashX(11) + tx number(5) + value(8) of that output
                 'check("cache-entry-is-keyed-by-the-outputs-own-position-and-carries-its-tx-number-and-value", '
                 '0 <= idx and idx < len(tx.outputs) and tx.outputs[idx].value == txout.value and tx.outputs[idx].pk_script == txout.pk_script and '
                 'len(hashX) == 11 and tx_num == old(self.state.tx_count) + cur_t and '
                 'lookup(self.utxo_cache, tx_hash + leu_enc(idx, 4)) == hashX + leu_enc(tx_num, 8)[0:5] + leu_enc(txout.value, 8))'],
            ('before', 'self.db.history.add_unflushed(hashXs_by_tx, state.tx_count)'):
                ['check("one-history-entry-per-transaction-numbered-from-the-old-count", len(hashXs_by_tx) == len(block.g_txs) and '
                 'state.tx_count == old(self.state.tx_count) and tx_num == old(self.state.tx_count) + len(block.g_txs))',
                 'check("one-undo-entry-per-spent-output", len(undo_info) == self.g_spent)',
                 'check("utxo-count-delta-is-puts-minus-spends", utxo_count_delta == self.g_put - self.g_spent)',
                 'check("one-tx-hash-per-transaction", len(tx_hashes) == len(block.g_txs))'],
        },
        ensures=[
            ('not-connecting-block-only-requests-a-reorg',
             'implies(hdr_prev(block.header) != old(self.state.tip), self.reorg_count == -1 and self.state.height == old(self.state.height) and '
             'self.state.tx_count == old(self.state.tx_count) and self.state.utxo_count == old(self.state.utxo_count) and '
             'len(self.db.tx_counts) == len(old(self.db.tx_counts)) and len(self.undo_infos) == len(old(self.undo_infos)))'),
            ('state-advanced',
             'implies(hdr_prev(block.header) == old(self.state.tip), self.state.height == block.height and self.state.tip == hdr_hash(block.header) and '
             'self.state.chain_size == old(self.state.chain_size) + block.size and '
             'self.state.tx_count == old(self.state.tx_count) + len(block.g_txs) and '
             'self.state.utxo_count == old(self.state.utxo_count) + self.g_put - self.g_spent and self.ok)'),
            ('tx-count-recorded',
             'implies(hdr_prev(block.header) == old(self.state.tip), len(self.db.tx_counts) == len(old(self.db.tx_counts)) + 1 and '
             'self.db.tx_counts[len(self.db.tx_counts) - 1] == self.state.tx_count)'),
            ('undo-information-kept-exactly-inside-the-window',
             'implies(hdr_prev(block.header) == old(self.state.tip), '
             'ite(block.height >= self.daemon.g_h - self.db.env.reorg_limit + 1, '
             'len(self.undo_infos) == len(old(self.undo_infos)) + 1 and self.undo_infos[len(self.undo_infos) - 1][1] == block.height and '
             'len(self.undo_infos[len(self.undo_infos) - 1][0]) == self.g_spent, '
             'len(self.undo_infos) == len(old(self.undo_infos))))'),
        ],
        ghost_results={},
        loops={
            0: LoopSpec('for tx, tx_hash in block.iter_txs()',
                        invariants=[('numbering', 'tx_num == old(self.state.tx_count) + _i and len(hashXs_by_tx) == _i and len(tx_hashes) == _i'),
                                    ('counts', 'utxo_count_delta == self.g_put - self.g_spent and len(undo_info) == self.g_spent and '
                                               'self.g_put >= 0 and self.g_spent >= 0'),
                                    ('state-untouched-so-far', 'self.state.tx_count == old(self.state.tx_count) and self.state.tip == old(self.state.tip) and '
                                                               'self.state.height == old(self.state.height) and self.state.utxo_count == old(self.state.utxo_count) and '
                                                               'self.state.chain_size == old(self.state.chain_size) and '
                                                               'len(self.db.tx_counts) == len(old(self.db.tx_counts)) and len(self.undo_infos) == len(old(self.undo_infos))')],
                        modifies=['self.utxo_cache', 'self.db_deletes', 'self.touched', 'self.g_put', 'self.g_spent', 'tx_hashes', 'undo_info', 'hashXs_by_tx'],
                        ghost_begin=['cur_t = _i']),
            1: LoopSpec('for txin in tx.inputs',
                        invariants=[('counts', 'utxo_count_delta == self.g_put - self.g_spent and len(undo_info) == self.g_spent and '
                                               'self.g_put >= 0 and self.g_spent >= 0'),
                                    ('this-transaction', 'tx_num == old(self.state.tx_count) + cur_t and tx_numb == leu_enc(tx_num, 8)[0:5]')],
                        modifies=['self.utxo_cache', 'self.db_deletes', 'self.g_spent', 'undo_info', 'hashXs']),
            2: LoopSpec('for idx, txout in enumerate(tx.outputs)',
                        invariants=[('counts', 'utxo_count_delta == self.g_put - self.g_spent and len(undo_info) == self.g_spent and '
                                               'self.g_put >= 0 and self.g_spent >= 0'),
                                    ('this-transaction', 'tx_num == old(self.state.tx_count) + cur_t and tx_numb == leu_enc(tx_num, 8)[0:5]')],
                        modifies=['self.utxo_cache', 'self.g_put', 'hashXs']),
        },
        props=['C01', 'C02', 'C15', 'C03'])
