'''C01 - the query side of the UTXO index (electrumx/server/db.py), for every database content of the stated layout:

  'h' rows   b'h' + tx_hash[:4] + le32(tx_idx) + le40(tx_num)  ->  hashX
  'u' rows   b'u' + hashX + le32(tx_idx) + le40(tx_num)        ->  le64(value)          (8 bytes: layout precondition)

  DB.all_utxos.read_utxos        one UTXO per 'u' row of the script hash, decoded from exactly those key/value bytes: tx number
                                 from the last five key bytes, output index from the four before, value from all eight value
                                 bytes, (tx hash, height) = fs_tx_hash(tx number).  Zero values are UTXOs like any other.
  DB.lookup_utxos.lookup_utxo    None only if there is no script hash or no such 'u' row; a row with value 0 is found.
  DB.lookup_utxos.lookup_hashX   among the 'h' rows sharing the 4-byte compressed hash and index, the one whose tx number maps
                                 back to the full tx hash - never another one - or (None, None) if there is none.
'''
from pyvc.dsl import *
from pyvc.builtins import KJ, KBytes, KStr

DBK = 'electrumx/server/db.py:DB'
UTXO = Tuple(Int, Int, Opt(KBytes), Int, Int, fields=('tx_num', 'tx_pos', 'tx_hash', 'height', 'value'), tname='UTXO')


def register(reg):
    # hslice(d, n): the n-th 32-byte record of the hashes file - kept uninterpreted inside quantified invariants, unfolded by
    # an explicit lemma instance after each fs_tx_hash call (slices under quantifiers make both solvers unstable)
    reg.specfun('hslice', [KBytes, Int], KBytes)
    reg.axiom('hslice_def', {'d': KBytes, 'n': Int}, 'hslice(d, n) == d[n * 32:n * 32 + 32]')
    U_ROWS_8 = ('forall(lambda k=Bytes: implies(k in self.utxo_db.g_map and len(k) >= 1 and k[0] == 117, '
                'len(lookup(self.utxo_db.g_map, k)) == 8))')
    reg.contract(
        DBK + '.lookup_utxos.<locals>.lookup_utxo', params={'hashX': Opt(KBytes), 'suffix': Opt(KBytes)},
        closure_env={'self': Obj(DBK)}, requires=[('u-rows-hold-8-byte-values', U_ROWS_8),
                  ('pairs-come-from-lookup_hashX', 'is_none(hashX) == is_none(suffix)')],
        returns=Opt(Tuple(KBytes, Int)), raises={}, assumes_inv=False, maintains_inv=False,
        ensures=[('no-script-hash', 'implies(is_none(hashX) or len(some(hashX)) == 0, is_none(result))'),
                 ('found-iff-row', 'implies(not is_none(hashX) and len(some(hashX)) > 0 and not is_none(suffix), '
                                   'let(lambda key=b"u" + some(hashX) + some(suffix): '
                                   'is_none(result) == (key not in self.utxo_db.g_map)))'),
                 ('value-decoded-zero-included', 'implies(not is_none(result), '
                                   'let(lambda key=b"u" + some(hashX) + some(suffix): some(result)[0] == some(hashX) and '
                                   'some(result)[1] == leu_dec(lookup(self.utxo_db.g_map, key))))')],
        props=['C01', 'C08'])

    # ---- all_utxos.read_utxos ----------------------------------------------------------------------------------------------
    reg.contract(
        DBK + '.all_utxos.<locals>.read_utxos', params={}, closure_env={'self': Obj(DBK), 'hashX': KBytes},
        requires=[('script-hash-length', 'len(hashX) == 11'),
                  ('u-row-layout', 'forall(lambda k=Bytes: implies(k in self.utxo_db.g_map and has_prefix(b"u" + hashX, k), '
                                   'len(k) == 21 and len(lookup(self.utxo_db.g_map, k)) == 8))'),
                  ('cumulative-counts-sorted', 'forall(lambda i=Int, j=Int: implies(0 <= i and i <= j and j < len(self.tx_counts), '
                                               'self.tx_counts[i] <= self.tx_counts[j]))')],
        returns=List(UTXO), raises={}, assumes_inv=False, maintains_inv=False, locals={'utxos': List(UTXO)},
        ghost_results={'rows': List(Tuple(KBytes, KBytes))},
        ghost={('before', 'return utxos'): ['rows = _rows0'],
               ('after', 'tx_hash, height = self.fs_tx_hash(tx_num)'): ['use("hslice_def", self.hashes_file.g_data, tx_num)']},
        ensures=[('one-per-row', 'len(result) == len(rows)'),
                 ('rows-are-the-u-rows-of-the-script-hash',
                  'forall(lambda j=Int: implies(0 <= j and j < len(rows), rows[j][0] in self.utxo_db.g_map and '
                  'has_prefix(b"u" + hashX, rows[j][0]) and rows[j][1] == lookup(self.utxo_db.g_map, rows[j][0])))'),
                 ('decoded-from-the-row',
                  'forall(lambda j=Int: implies(0 <= j and j < len(result), '
                  'result[j].tx_num == leu_dec(rows[j][0][16:21] + b"\\x00\\x00\\x00") and '
                  'result[j].tx_pos == leu_dec(rows[j][0][12:16]) and result[j].value == leu_dec(rows[j][1])))'),
                 ('hash-and-height-of-that-tx-number',
                  'forall(lambda j=Int: implies(0 <= j and j < len(result), let(lambda n=result[j].tx_num, h=result[j].height: '
                  '0 <= h and h <= len(self.tx_counts) and (h == 0 or self.tx_counts[h - 1] <= n) and '
                  '(h == len(self.tx_counts) or n < self.tx_counts[h]) and is_none(result[j].tx_hash) == (h > self.state.height) and '
                  'implies(not is_none(result[j].tx_hash), some(result[j].tx_hash) == hslice(self.hashes_file.g_data, n)))))')],
        loops={0: LoopSpec('for db_key, db_value in self.utxo_db.iterator(prefix=prefix)',
                           invariants=[('count', 'len(utxos) == _i'),
                                       ('decoded', 'forall(lambda j=Int: implies(0 <= j and j < _i, '
                                                   'utxos[j].tx_num == leu_dec(_it[j][0][16:21] + b"\\x00\\x00\\x00") and '
                                                   'utxos[j].tx_pos == leu_dec(_it[j][0][12:16]) and utxos[j].value == leu_dec(_it[j][1])))'),
                                       ('hash-height', 'forall(lambda j=Int: implies(0 <= j and j < _i, let(lambda n=utxos[j].tx_num, h=utxos[j].height: '
                                                       '0 <= h and h <= len(self.tx_counts) and (h == 0 or self.tx_counts[h - 1] <= n) and '
                                                       '(h == len(self.tx_counts) or n < self.tx_counts[h]) and is_none(utxos[j].tx_hash) == (h > self.state.height) and '
                                                       'implies(not is_none(utxos[j].tx_hash), some(utxos[j].tx_hash) == hslice(self.hashes_file.g_data, n)))))')],
                           modifies=['utxos'], ghost_pre=['_rows0 = _it'])},
        portfolio=True, props=['C01'])

    # ---- lookup_utxos.lookup_hashX -----------------------------------------------------------------------------------------
    # txh(n): the full hash of transaction number n as fs_tx_hash reports it (None above the DB height)
    H_LAYOUT = ('forall(lambda k=Bytes: implies(k in self.utxo_db.g_map and has_prefix(b"h" + tx_hash[0:4] + leu_enc(tx_idx, 4), k), '
                'len(k) == 14))')
    SORTED = ('forall(lambda i=Int, j=Int: implies(0 <= i and i <= j and j < len(self.tx_counts), '
              'self.tx_counts[i] <= self.tx_counts[j]))')
    MATCH = ('let(lambda n=leu_dec(ROW[0][9:14] + b"\\x00\\x00\\x00"): n < self.tx_counts[self.state.height] and '
             'hslice(self.hashes_file.g_data, n) == tx_hash)')
    reg.contract(
        DBK + '.lookup_utxos.<locals>.lookup_hashX', params={'tx_hash': KBytes, 'tx_idx': Int}, closure_env={'self': Obj(DBK)},
        requires=[('prevout', 'len(tx_hash) == 32 and 0 <= tx_idx and tx_idx < 4294967296'), ('h-key-length', H_LAYOUT),
                  ('cumulative-counts-sorted', SORTED), ('db-not-empty', 'self.state.height >= 0 and len(self.tx_counts) == self.state.height + 1')],
        returns=Tuple(Opt(KBytes), Opt(KBytes)), raises={}, assumes_inv=False, maintains_inv=False,
        ghost_results={'rows': List(Tuple(KBytes, KBytes)), 'at': Int},
        locals={'at': Int},
        ghost={('after', 'fs_hash, _height = self.fs_tx_hash(tx_num)'): ['use("hslice_def", self.hashes_file.g_data, tx_num)'],
               ('before', 'return (hashX, idx_packed + tx_num_packed)'): ['rows = _rows0', 'at = _i0'],
               ('before', 'return (None, None)'): ['rows = _rows0', 'at = -1']},
        ensures=[('rows-are-the-candidates', 'forall(lambda j=Int: implies(0 <= j and j < len(rows), rows[j][0] in self.utxo_db.g_map and '
                                             'has_prefix(b"h" + tx_hash[0:4] + leu_enc(tx_idx, 4), rows[j][0]) and '
                                             'rows[j][1] == lookup(self.utxo_db.g_map, rows[j][0])))'),
                 ('none-only-if-no-candidate-is-that-transaction',
                  'implies(is_none(result[0]), is_none(result[1]) and forall(lambda j=Int: implies(0 <= j and j < len(rows), not '
                  + MATCH.replace('ROW', 'rows[j]') + ')))'),
                 ('the-row-of-that-very-transaction',
                  'implies(not is_none(result[0]), 0 <= at and at < len(rows) and ' + MATCH.replace('ROW', 'rows[at]') +
                  ' and some(result[0]) == rows[at][1] and some(result[1]) == leu_enc(tx_idx, 4) + rows[at][0][9:14])')],
        loops={0: LoopSpec('for db_key, hashX in self.utxo_db.iterator(prefix=prefix)',
                           invariants=[('earlier-candidates-are-other-transactions',
                                        'forall(lambda j=Int: implies(0 <= j and j < _i, not ' + MATCH.replace('ROW', '_it[j]') + '))')],
                           ghost_pre=['_rows0 = _it'], ghost_begin=['_i0 = _i'])},
        portfolio=True, props=['C01', 'C08'])
