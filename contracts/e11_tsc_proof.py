'''C11 - merkle caches under a concurrent reorganisation: what is handed to _merkle_branch.

SessionManager._merkle_branch(height, tx_hashes, ...) may INSTALL a per-height MerkleCache built from tx_hashes.  Its
precondition is therefore: tx_hashes are the tx hashes of that height in the CURRENT chain epoch (block_txs(g_epoch, height)).
It is proved at every call site under interference (the epoch, the reorg counter and the by-height cache may change at every
suspension point of the caller that is not inside a callee with its own rely/guarantee contract):
  merkle_branch_for_tx_hash, merkle_branch_for_tx_pos   no suspension between reading the hashes and using them;
  tsc_merkle_proof_for_tx_hash                           the header read (get_target) happens AFTER _merkle_branch.
ElectrumX._merkle_proof: the checkpoint proof is for the REQUESTED checkpoint height or it is refused (the parameter is not
silently clipped).
'''
from pyvc.dsl import *
from pyvc.builtins import KJ, KBytes, KStr

S = 'electrumx/server/session.py:'
SM = S + 'SessionManager'
EX = S + 'ElectrumX'


def register(reg):
    mb = reg.contracts[SM + '._merkle_branch']
    mb.requires = list(mb.requires) + [('hashes-are-those-of-the-current-chain', 'tx_hashes == block_txs(self.g_epoch, height)')]
    INTERF = {'havoc': ['self.g_epoch', 'self._reorg_count', 'self._tx_hashes_cache'],
              'rely': ['self._reorg_count >= pre.self._reorg_count', 'self.g_epoch >= pre.self.g_epoch',
                       '(self.g_epoch == pre.self.g_epoch) == (self._reorg_count == pre.self._reorg_count)'],
              'skip_at': ['tx_hashes_at_blockheight', '_merkle_branch']}
    for name in ('merkle_branch_for_tx_hash', 'merkle_branch_for_tx_pos'):
        c = reg.contracts[SM + '.' + name]
        c.interference = dict(INTERF)
        c.modifies = list(c.modifies) + ['self.g_epoch', 'self._reorg_count', 'self._tx_hashes_cache']

    reg.contract('electrumx/lib/hash.py:double_sha256', params={'x': KBytes}, returns=KBytes, ensures=['len(result) == 32'],
                 trusted='T-HASH: double_sha256 is a function of its input with a 32-byte result')
    reg.inline.add(SM + '.tsc_merkle_proof_for_tx_hash.<locals>.get_target')
    reg.inline.add(SM + '.tsc_merkle_proof_for_tx_hash.<locals>.get_tx_position')
    reg.inline.add(SM + '.tsc_merkle_proof_for_tx_hash.<locals>.get_txid_or_tx_field')
    old = reg.contracts[SM + '.tsc_merkle_proof_for_tx_hash']
    reg.contract(
        SM + '.tsc_merkle_proof_for_tx_hash', params=dict(old.params), requires=list(old.requires), returns=old.returns,
        raises={'RPCError': []},
        modifies=['self.g_epoch', 'self._reorg_count', 'self._tx_hashes_cache', 'self._tx_hashes_lookups', 'self._tx_hashes_hits'],
        interference=dict(INTERF),
        ensures=[('index-in-block', 'result[0]["index"] >= 0')], shard_depth=5, feas_timeout_ms=250,
        props=['C11', 'C16'])

    mp = reg.contracts[EX + '._merkle_proof']
    mp.ensures = [(lab, src.replace('cp_height', 'old(cp_height)')) if lab == 'inside-the-chain' else (lab, src) for lab, src in mp.ensures]
    mp.ghost[('before', 'branch, root = await self.db.header_branch_and_root(cp_height + 1, height)')] = [
        'check("proof-is-for-the-requested-checkpoint", cp_height == old(cp_height) and height == old(height))']
