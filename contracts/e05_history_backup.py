'''C05 / C03 - History.backup: the rollback of the histories is ONE atomic write batch.

flush_backup (d04) relies on exactly this summary of History.backup; here it is proved on the real function:
  * all deletions, all truncated rows and the state record reach the history database in one write batch (one durable event),
    with flush_count + 1 and the state record of that count inside the batch - so a crash leaves the histories either entirely
    as before or entirely rolled back, never half of the script hashes;
  * a row is rewritten only with a PREFIX of its old value whose length is 5 x (the number of entries bisect found below
    tx_count), and only when that number is positive; a row is deleted only when bisect found no entry below tx_count.
The array('Q') / bisect idiom is executed on its model (T-ARRAY, T-BISECT: the rows are sorted - caller invariant); which rows
are visited (iteration downwards until the first row with a surviving entry) is pinned by the loop contracts; that the result
equals a fresh index is the bounded stand-in of C03.
'''
from pyvc.dsl import *
from pyvc.builtins import KJ, KBytes, KStr

HIST = 'electrumx/server/history.py:History'
HS = 'hstate(self.flush_count, self.comp_flush_count, self.comp_cursor, self.db_version, self.upgrade_cursor)'


def register(reg):
    NOCOMMIT = 'self.db.g_commits == old(self.db.g_commits)'
    reg.contract(
        HIST + '.backup', params={'hashXs': Set(KBytes), 'tx_count': Int},
        requires=[('tx-count', 'tx_count >= 0'), ('script-hashes', 'forall(lambda x=Bytes: implies(x in hashXs, len(x) == 11))'),
                  ('rows-are-whole-entries', 'forall(lambda k=Bytes: implies(k in self.db.g_map and k != STATEKEY, mod(len(lookup(self.db.g_map, k)), 5) == 0))')],
        raises={}, assumes_inv=False, maintains_inv=False,
        modifies=['self.db.g_map', 'self.db.g_commits', 'self.flush_count'],
        locals={'deletes': List(KBytes), 'puts': Dict(KBytes, KBytes)},
        ghost={('after', 'puts[key] = hist[:5 * idx]'):
               ['check("a-row-is-truncated-to-its-entries-below-tx_count", idx > 0 and idx <= len(a) and lookup(puts, key) == hist[0:5 * idx])'],
               ('before', 'deletes.append(key)'):
               ['check("a-row-is-deleted-only-if-no-entry-is-below-tx_count", idx == 0)']},
        ensures=[('one-atomic-batch', 'self.db.g_commits == old(self.db.g_commits) + 1'),
                 ('counted', 'self.flush_count == old(self.flush_count) + 1'),
                 ('state-record-in-the-batch', 'STATEKEY in self.db.g_map and lookup(self.db.g_map, STATEKEY) == ' + HS)],
        loops={0: LoopSpec('for hashX in sorted(hashXs)', invariants=[('no-commit-yet', NOCOMMIT)], modifies=['batch.g_ops', 'nremoves']),
               1: LoopSpec('for key, hist in self.db.iterator(prefix=hashX, reverse=True)', invariants=[('no-commit-yet', NOCOMMIT)],
                           modifies=['deletes', 'puts', 'nremoves'], ghost_pre=['use("prefix_def", hashX, STATEKEY)']),
               2: LoopSpec('for key in deletes', invariants=[('no-commit-yet', NOCOMMIT)], modifies=['batch.g_ops']),
               3: LoopSpec('for key, value in puts.items()', invariants=[('no-commit-yet', NOCOMMIT)], modifies=['batch.g_ops'])},
        portfolio=True, props=['C05', 'C03'])
