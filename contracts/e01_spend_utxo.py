'''C01 - BlockProcessor.spend_utxo: the output that is spent is the output that was asked for.

'h' rows are keyed by the first FOUR bytes of the tx hash (+ output index + tx number): several unspent outputs may share a
key prefix.  For every database of the stated layout that contains the output (valid chain: requires E with witness k0) and
holds at most one unspent row per outpoint (requires U):
  * from the cache: the cached value is returned and removed, nothing is queued for deletion;
  * from the DB: the row whose TX NUMBER MAPS BACK TO THE FULL TX HASH is the one returned and queued for deletion (its 'h'
    key and its 'u' key, in that order) - never another candidate sharing the prefix, whatever their script hashes - and the
    "not found" ChainError cannot happen.
'''
from pyvc.dsl import *
from pyvc.builtins import KJ, KBytes, KStr

BP = 'electrumx/server/block_processor.py:BlockProcessor'
DBK = 'electrumx/server/db.py:DB'


def register(reg):
    bp = reg.classes[BP]
    bp.fields['utxo_cache'] = Dict(KBytes, KBytes)
    bp.fields['db_deletes'] = List(KBytes)
    # rownum(k): the tx number in the last five bytes of an 'h' key; ukeyf(v, k): the 'u' key of the same output.  Both are kept
    # uninterpreted inside the quantified layout conditions and unfolded by explicit instances where the code computes them
    # (byte slices under quantifiers make the solvers - even z3's push() - diverge)
    reg.specfun('rownum', [KBytes], Int)
    reg.specfun('ukeyf', [KBytes, KBytes], KBytes)
    reg.axiom('rownum_def', {'k': KBytes}, 'implies(len(k) == 14, rownum(k) == leu_dec(k[9:14] + b"\\x00\\x00\\x00"))')
    reg.axiom('ukey_def', {'v': KBytes, 'k': KBytes}, 'implies(len(k) == 14, ukeyf(v, k) == b"u" + v + k[5:14])')
    P = 'b"h" + tx_hash[0:4] + leu_enc(tx_idx, 4)'
    NUM = 'rownum({k})'
    WANT = 'hslice(self.db.hashes_file.g_data, ' + NUM + ') == tx_hash'
    UKEY = 'ukeyf(lookup(self.db.utxo_db.g_map, {k}), {k})'
    CK = 'tx_hash + leu_enc(tx_idx, 4)'
    FROM_CACHE = f'({CK} in old(self.utxo_cache) and len(lookup(old(self.utxo_cache), {CK})) > 0)'
    reg.contract(
        BP + '.spend_utxo', params={'tx_hash': KBytes, 'tx_idx': Int}, ghost_params={'k0': KBytes}, returns=KBytes,
        requires=[
            ('outpoint', 'len(tx_hash) == 32 and 0 <= tx_idx and tx_idx < 4294967296'),
            ('h-row-layout', f'forall(lambda k=Bytes: implies(k in self.db.utxo_db.g_map and has_prefix({P}, k), len(k) == 14 and '
                             f'len(lookup(self.db.utxo_db.g_map, k)) == 11 and 0 <= {NUM.format(k="k")} and {NUM.format(k="k")} < self.db.tx_counts[self.db.state.height] and '
                             f'implies({UKEY.format(k="k")} in self.db.utxo_db.g_map, len(lookup(self.db.utxo_db.g_map, {UKEY.format(k="k")})) == 8)))'),
            ('flushed-chain', 'self.db.state.height >= 0 and len(self.db.tx_counts) >= self.db.state.height + 1 and '
                              'forall(lambda i=Int, j=Int: implies(0 <= i and i <= j and j < len(self.db.tx_counts), '
                              'self.db.tx_counts[i] <= self.db.tx_counts[j]))'),
            # E: a valid chain only spends outputs that exist: not in the cache => its rows are in the DB (witness k0)
            ('the-output-is-in-the-index', f'implies(not {FROM_CACHE.replace("old(self.utxo_cache)", "self.utxo_cache")}, '
                                           f'k0 in self.db.utxo_db.g_map and has_prefix({P}, k0) and {WANT.format(k="k0")} and '
                                           f'{UKEY.format(k="k0")} in self.db.utxo_db.g_map)'),
            # U: at most one unspent row per outpoint
            ('one-row-per-outpoint', f'forall(lambda a=Bytes, b=Bytes: implies(a in self.db.utxo_db.g_map and b in self.db.utxo_db.g_map and '
                                     f'has_prefix({P}, a) and has_prefix({P}, b) and {WANT.format(k="a")} and {WANT.format(k="b")}, a == b))'),
        ],
        raises={'ChainError': ['False']}, assumes_inv=False, maintains_inv=False,
        modifies=['self.utxo_cache', 'self.db_deletes'],
        ghost={('after', 'fs_hash, _height = self.db.fs_tx_hash(tx_num)'): ['use("hslice_def", self.db.hashes_file.g_data, tx_num)'],
               ('after', 'tx_num_packed = hdb_key[-5:]'): ['use("rownum_def", hdb_key)', 'use("ukey_def", hashX, hdb_key)'],
               'entry': ['use("rownum_def", k0)', 'use("ukey_def", lookup(self.db.utxo_db.g_map, k0), k0)']},
        ensures=[
            ('from-the-cache', f'implies({FROM_CACHE}, result == lookup(old(self.utxo_cache), {CK}) and {CK} not in self.utxo_cache and '
                               'self.db_deletes == old(self.db_deletes))'),
            ('from-the-db-the-row-of-that-very-transaction',
             f'implies(not {FROM_CACHE}, result == lookup(self.db.utxo_db.g_map, k0) + k0[9:14] + lookup(self.db.utxo_db.g_map, {UKEY.format(k="k0")}) and '
             f'len(self.db_deletes) == len(old(self.db_deletes)) + 2 and self.db_deletes[len(self.db_deletes) - 2] == k0 and '
             f'self.db_deletes[len(self.db_deletes) - 1] == {UKEY.format(k="k0")})'),
            ('cache-otherwise-untouched', f'forall(lambda c=Bytes: implies(c != {CK}, (c in self.utxo_cache) == (c in old(self.utxo_cache)) and '
                                          'lookup(self.utxo_cache, c) == lookup(old(self.utxo_cache), c)))'),
        ],
        loops={0: LoopSpec('for hdb_key, hashX in candidates.items()',
                           invariants=[('visited-candidates-are-other-outputs', 'forall(lambda k=Bytes: implies(k in _done, k != k0))'),
                                       ('nothing-queued-yet', 'self.db_deletes == old(self.db_deletes)')],
                           )},
        portfolio=True, feas_timeout_ms=300, props=['C01'])
