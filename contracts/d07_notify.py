'''C07 - subscribers converge on the true status and tip: the per-component obligations (DESIGN 6, C07).

  BlockProcessor.on_caught_up    the block report (notifications.on_block) is issued only after the flush that makes the block
                                 queryable: at the call, DB height == processor height ("never sent before that block is queryable").
  ElectrumX._notify_inner        header notification iff the height changed and the client subscribed to headers; every touched,
                                 subscribed script hash gets a status notification computed during this call.
  ElectrumX.address_status       the mempool-status map tracks exactly the script hashes whose mempool part is non-empty.
  SessionManager._notify_sessions (C10 contract) and Notifications (C20 contracts) are the other links.
The composition over all interleavings is written in DESIGN.md, not machine-checked.
'''
from pyvc.dsl import *
from pyvc.builtins import KJ, KBytes, KStr

S = 'electrumx/server/session.py:'
EX = S + 'ElectrumX'
BP = 'electrumx/server/block_processor.py:BlockProcessor'
DBK = 'electrumx/server/db.py:DB'


def register(reg):
    HX = reg.usort('HX')
    reg.cls('ext:BPState', fields={'height': Int, 'first_sync': Bool})
    reg.cls('ext:BPNotifications', fields={}, methods={'on_block': 'ext:BPNotifications.on_block'})
    reg.cls(BP, fields={'db': Obj(DBK), 'state': Obj('ext:BPState'), 'caught_up': Bool, 'touched': Set(KBytes),
                        'notifications': Obj('ext:BPNotifications')},
            ghost={'g_reported': Set(Int)})
    reg.contract('ext:BPNotifications.on_block', params={'self': Obj('ext:BPNotifications'), 'touched': Set(KBytes), 'height': Int},
                 assumes_inv=False, maintains_inv=False,
                 trusted='A-CALLEE: Notifications.on_block (C20 contracts)')
    reg.contract(BP + '.flush', params={'flush_utxos': Bool}, modifies=['self.db.state'],
                 ensures=['implies(flush_utxos, self.db.state.height == self.state.height)'],
                 assumes_inv=False, maintains_inv=False,
                 trusted='A-CALLEE: BlockProcessor.flush(True) -> DB.flush_dbs commits the state at the processor height (C04 / bounded)')
    reg.contract(DBK + '.open_for_serving', params={}, assumes_inv=False, maintains_inv=False,
                 trusted='A-CALLEE: DB.open_for_serving reopens the databases')
    reg.contract(BP + '.on_caught_up', params={}, raises={}, assumes_inv=False, maintains_inv=False,
                 ghost={('before', 'await self.notifications.on_block(self.touched, self.state.height)'):
                        ['check("block-queryable-before-reported", self.db.state.height == self.state.height)']},
                 ensures=[('first-sync-over', 'not self.state.first_sync'), ('caught-up', 'self.caught_up')],
                 props=['C07'])

    # ---- _notify_inner --------------------------------------------------------------------------
    ex = reg.classes[EX]
    ex.ghost['g_notified'] = Set(KJ)         # aliases a status notification was sent for (this call)
    ex.ghost['g_header_sent'] = Bool
    ex.ghost['g_status'] = Dict(KBytes, Opt(KStr))     # status computed for a script hash during this call
    ex.methods['send_notification'] = 'ext:RPCSession.send_notification'
    reg.contract('ext:RPCSession.send_notification', params={'self': Obj(EX), 'method': KStr, 'args': KJ},
                 assumes_inv=False, maintains_inv=False, modifies=['self.g_notified', 'self.g_header_sent'],
                 ensures=['implies(method == "blockchain.headers.subscribe", self.g_header_sent and self.g_notified == old(self.g_notified))',
                          'implies(method == "blockchain.scripthash.subscribe", self.g_header_sent == old(self.g_header_sent) and '
                          'self.g_notified == add(old(self.g_notified), args[0]))'],
                 trusted='T-RPCX: send_notification delivers (method, args) to this session\'s client (observation point)')
    sas = reg.contracts[EX + '.subscription_address_status']
    sas.ensures.append(('only-own-entry', 'forall(lambda y=Bytes: implies(y != hashX, (y in self.hashX_subs) == (y in old(self.hashX_subs)) '
                                          'and lookup(self.hashX_subs, y) == lookup(old(self.hashX_subs), y)))'))
    sas.ensures.append(('notifications-untouched', 'self.g_notified == old(self.g_notified) and self.g_header_sent == old(self.g_header_sent)'))
    sas.props.append('C07')
    reg.contract(
        EX + '._notify_inner', params={'touched': Set(KBytes), 'height_changed': Bool},
        requires=['not self.g_header_sent', 'forall(lambda a=J: a not in self.g_notified)', 'forall(lambda x=Bytes: x not in self.g_status)',
                  # aliases are the script hash strings the client subscribed with (scripthash_to_hashX accepted them)
                  ('aliases-are-strings', 'forall(lambda x=Bytes: implies(x in self.hashX_subs, isinstance(lookup(self.hashX_subs, x), str)))')],
        raises={'ExcessiveSessionCostError': []}, assumes_inv=False, maintains_inv=False,
        locals={'changed': Dict(KJ, Opt(KStr))},
        ensures=[
            ('header-iff', 'self.g_header_sent == (height_changed and old(self.subscribe_headers))'),
            ('touched-subscribers-notified',
             'forall(lambda x=Bytes: implies(x in old(touched) and x in old(self.hashX_subs) and '
             'truthy_j(lookup(old(self.hashX_subs), x)), lookup(old(self.hashX_subs), x) in self.g_notified))'),
            # the status of a script hash with mempool transactions depends on the confirmation state of OTHER transactions:
            # on a height change every tracked, subscribed script hash that was not touched is re-computed, and the client
            # is told whenever the new status differs from the one recorded before this call
            ('status-change-of-an-untouched-script-hash-is-notified',
             'forall(lambda x=Bytes: implies(height_changed and x in old(self.mempool_statuses) and not (x in old(touched)) and '
             'x in old(self.hashX_subs) and truthy_j(lookup(old(self.hashX_subs), x)), '
             'x in self.g_status and implies(lookup(self.g_status, x) != lookup(old(self.mempool_statuses), x), '
             'lookup(old(self.hashX_subs), x) in self.g_notified)))'),
        ],
        ghost={('after', 'touched = touched.intersection(self.hashX_subs)'): ['subs0 = copy(self.hashX_subs)', 'touched1 = touched'],
               ('after', 'status = await self.subscription_address_status(hashX)'): ['self.g_status = store(self.g_status, hashX, status)']},
        loops={
            0: LoopSpec('for hashX in touched',
                        invariants=[('done', 'forall(lambda x=Bytes: implies(x in _done and truthy_j(lookup(subs0, x)), lookup(subs0, x) in changed))'),
                                    ('subs-of-rest', 'forall(lambda y=Bytes: implies(y in touched and not (y in _done), (y in self.hashX_subs) and '
                                                     'lookup(self.hashX_subs, y) == lookup(subs0, y)))'),
                                    ('quiet', 'not (exists(lambda a=J: a in self.g_notified))'),
                                    ('untouched-entries-keep-their-recorded-status',
                                     'forall(lambda y=Bytes: implies(not (y in touched), (y in self.mempool_statuses) == (y in old(self.mempool_statuses)) and '
                                     'implies(y in self.mempool_statuses, lookup(self.mempool_statuses, y) == lookup(old(self.mempool_statuses), y)) and '
                                     '(y in self.hashX_subs) == (y in subs0) and lookup(self.hashX_subs, y) == lookup(subs0, y) and not (y in self.g_status)))')],
                        modifies=['changed', 'self.hashX_subs', 'self.mempool_statuses', 'self.g_status']),
            1: LoopSpec('for hashX, old_status in mempool_statuses.items()',
                        invariants=[('kept', 'forall(lambda a=J: implies(a in pre_changed, a in changed))'),
                                    ('quiet', 'not (exists(lambda a=J: a in self.g_notified))'),
                                    ('rechecked', 'forall(lambda x=Bytes: implies(x in _done and not (x in touched1) and x in subs0 and truthy_j(lookup(subs0, x)), '
                                                  'x in self.g_status and implies(lookup(self.g_status, x) != lookup(mempool_statuses, x), lookup(subs0, x) in changed)))'),
                                    ('not-yet-rechecked-keep-their-subscription',
                                     'forall(lambda y=Bytes: implies(not (y in touched1) and not (y in _done), (y in self.hashX_subs) == (y in subs0) and '
                                     'lookup(self.hashX_subs, y) == lookup(subs0, y) and not (y in self.g_status)))')],
                        ghost_pre=['pre_changed = dom(changed)'],
                        modifies=['changed', 'self.hashX_subs', 'self.mempool_statuses', 'self.g_status']),
            2: LoopSpec('for alias, status in changed.items()',
                        invariants=[('sent', 'forall(lambda a=J: implies(a in _done, a in self.g_notified))'),
                                    ('header', 'self.g_header_sent == hdr0')],
                        ghost_pre=['hdr0 = self.g_header_sent'],
                        modifies=['self.g_notified', 'self.g_header_sent']),
        },
        shard_depth=6, feas_timeout_ms=250, props=['C07'])

    # ---- address_status: which script hashes are re-checked on a height change ------------------------------------------------
    # mp_nonempty(x): the mempool currently holds a transaction touching x (MemPool.transaction_summaries(x) is non-empty)
    reg.specfun('mp_nonempty', [KBytes], Bool)
    ts = reg.contracts['ext:MemPool.transaction_summaries']
    ts.ensures = list(ts.ensures) + [('nonempty-iff', '(len(result) > 0) == mp_nonempty(hashX)')]
    for name in ('address_status', 'subscription_address_status'):
        c = reg.contracts[EX + '.' + name]
        c.ensures.append(('others-untouched', 'forall(lambda y=Bytes: implies(y != hashX, (y in self.mempool_statuses) == (y in old(self.mempool_statuses)) '
                                              'and implies(y in self.mempool_statuses, lookup(self.mempool_statuses, y) == lookup(old(self.mempool_statuses), y))))'))
        if 'C07' not in c.props:
            c.props.append('C07')
    a = reg.contracts[EX + '.address_status']
    # a script hash with ANY mempool transaction is tracked (its status depends on the confirmation state of other
    # transactions' inputs, so it must be re-computed on every height change), with the status just computed; one without is not
    a.ensures.append(('tracked-iff-it-has-mempool-transactions', '(hashX in self.mempool_statuses) == mp_nonempty(hashX)'))
    a.ensures.append(('tracked-with-the-status-returned', 'implies(hashX in self.mempool_statuses, lookup(self.mempool_statuses, hashX) == result)'))
