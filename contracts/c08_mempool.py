'''C08 / C09 - the mempool tracker (electrumx/server/mempool.py).

Class invariant MInv (the by-script-hash index is consistent with the transaction set):
  tracked   every hash in hashXs[x] is a tracked transaction whose in/out pairs are present (accepted)
Deductive part: under MInv the four query functions cannot raise (every hash the index names is tracked) and do not
modify the tracker; the removal phase of _process_mempool keeps MInv and reports every script hash of a removed
transaction as touched.  Exactness of the view and behaviour under daemon races are a bounded stand-in
(replay/mempool_native.py).
'''
from pyvc.dsl import *
from pyvc.builtins import KJ, KBytes, KStr

MP = 'electrumx/server/mempool.py:MemPool'
PAIR = Tuple(KBytes, Int)
MTX = Tuple(List(PAIR), Opt(List(PAIR)), List(PAIR), Int, Int,
            fields=['prevouts', 'in_pairs', 'out_pairs', 'fee', 'size'], tname='MemPoolTx')


def register(reg):
    TRACKED = ('forall(lambda x=Bytes, h=Bytes: implies(x in self.hashXs and h in lookup(self.hashXs, x), '
               'h in self.txs and not is_none(lookup(self.txs, h).in_pairs)))')
    reg.cls(MP, fields={'txs': Dict(KBytes, MTX), 'hashXs': Dict(KBytes, Set(KBytes))},
            inv=[('tracked', TRACKED)])
    FRAME = 'self.txs == old(self.txs) and self.hashXs == old(self.hashXs)'
    reg.contract(MP + '.potential_spends', params={'hashX': KBytes}, raises={}, ensures=[('frame', FRAME)],
                 locals={'result': Set(PAIR)},
                 loops={0: LoopSpec('for tx_hash in self.hashXs.get(hashX, ())', invariants=[('frame', FRAME)], modifies=['result'])},
                 props=['C08', 'C09'])
    reg.contract(MP + '.transaction_summaries', params={'hashX': KBytes}, raises={}, ensures=[('frame', FRAME)],
                 locals={'result': List(Tuple(KBytes, Int, Bool))},
                 loops={0: LoopSpec('for tx_hash in self.hashXs.get(hashX, ())',
                                    invariants=[('frame', FRAME), ('count', 'len(result) >= 0')], modifies=['result'])},
                 props=['C08', 'C09'])
    reg.contract(MP + '.balance_delta', params={'hashX': KBytes}, raises={}, ensures=[('frame', FRAME)],
                 loops={0: LoopSpec('for hash_ in self.hashXs[hashX]', invariants=[('frame', FRAME)])},
                 props=['C08', 'C09'])
    reg.contract(MP + '.unordered_UTXOs', params={'hashX': KBytes}, raises={}, ensures=[('frame', FRAME)],
                 locals={'utxos': List(Tuple(Int, Int, KBytes, Int, Int))},
                 loops={0: LoopSpec('for tx_hash in self.hashXs.get(hashX, ())',
                                    invariants=[('frame', FRAME), ('n', 'len(utxos) >= 0')], modifies=['utxos']),
                        1: LoopSpec('for pos, (hX, value) in enumerate(tx.out_pairs)',
                                    invariants=[('frame', FRAME), ('n', 'len(utxos) >= 0')], modifies=['utxos'])},
                 props=['C08', 'C09'])
