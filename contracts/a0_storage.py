'''Shared external contracts (trusted base, DESIGN section 4): T-LDB key/value store, T-STRUCT byte order facts.

KV (plyvel / RocksDB behind electrumx.server.storage): a finite map bytes -> bytes (ghost field g_map).
  get(key)                  value or None
  put / delete (direct)     atomic single-key update
  iterator(prefix=, reverse=)   exactly the rows whose key starts with prefix, in (reverse) lexicographic key
                            order, from a snapshot
  write_batch()             context manager; its puts/deletes are applied in program order, atomically, on normal
                            exit only (batch.g_ops maps a key to its last operation: None = delete)
blt(a, b) is the lexicographic order on byte strings.
'''
from pyvc.dsl import *
from pyvc.builtins import KJ, KBytes, KStr

KV = 'ext:KV'
BATCH = 'ext:Batch'
ROWS = List(Tuple(KBytes, KBytes))


def register(reg):
    reg.specfun('blt', [KBytes, KBytes], Bool)
    reg.specfun('has_prefix', [KBytes, KBytes], Bool)        # has_prefix(p, k): k starts with p
    # lexicographic order facts (definitions of blt on the key shapes the index uses)
    reg.axiom('blt_total', {'a': KBytes, 'b': KBytes}, '(blt(a, b) or blt(b, a) or a == b) and not (blt(a, b) and blt(b, a))')
    reg.axiom('prefix_def', {'p': KBytes, 'k': KBytes}, 'has_prefix(p, k) == (len(k) >= len(p) and k[:len(p)] == p)')

    reg.cls(KV, fields={'for_sync': Bool}, ghost={'g_map': Dict(KBytes, KBytes), 'g_commits': Int},   # g_commits: durable write events so far
            methods={'get': KV + '.get', 'put': KV + '.put', 'delete': KV + '.delete', 'iterator': KV + '.iterator',
                     'write_batch': KV + '.write_batch'})
    reg.cls(BATCH, fields={'db': Obj(KV)}, ghost={'g_ops': Dict(KBytes, Opt(KBytes))},
            methods={'put': BATCH + '.put', 'delete': BATCH + '.delete',
                     '__enter__': BATCH + '.__enter__', '__exit__': BATCH + '.__exit__'})
    T = 'T-LDB: '
    reg.contract(KV + '.get', params={'self': Obj(KV), 'key': KBytes}, returns=Opt(KBytes),
                 ensures=['is_none(result) == (key not in self.g_map)',
                          'implies(key in self.g_map, some(result) == lookup(self.g_map, key))'],
                 assumes_inv=False, maintains_inv=False, trusted=T + 'get returns the stored value or None')
    reg.contract(KV + '.put', params={'self': Obj(KV), 'key': KBytes, 'value': KBytes}, modifies=['self.g_map', 'self.g_commits'],
                 ensures=['self.g_map == store(old(self.g_map), key, value)', 'self.g_commits == old(self.g_commits) + 1'],
                 assumes_inv=False, maintains_inv=False, commit='kv-put', trusted=T + 'a direct put is an atomic single-key update')
    reg.contract(KV + '.iterator', params={'self': Obj(KV), 'prefix': KBytes, 'reverse': Bool}, returns=ROWS,
                 defaults={'reverse': False, 'prefix': b''},
                 ghost_results={'g_pos': Dict(KBytes, Int)},
                 ensures=[
                     # position of every matching key in the result (witness function: keeps invariants free of exists)
                     ('positions', 'forall(lambda k=Bytes: implies(k in self.g_map and has_prefix(prefix, k), '
                                   '0 <= lookup(g_pos, k) and lookup(g_pos, k) < len(result) and result[lookup(g_pos, k)][0] == k))'),
                     # keys are distinct (a map): the position function is the inverse of the enumeration
                     ('position-of-the-j-th-row', 'forall(lambda j=Int: implies(0 <= j and j < len(result), lookup(g_pos, result[j][0]) == j))'),
                     ('empty-prefix', 'implies(len(prefix) == 0, forall(lambda k=Bytes: has_prefix(prefix, k)))'),
                     ('rows', 'forall(lambda j=Int: implies(0 <= j and j < len(result), result[j][0] in self.g_map and '
                              'result[j][1] == lookup(self.g_map, result[j][0]) and has_prefix(prefix, result[j][0])))'),
                     ('all', 'forall(lambda k=Bytes: implies(k in self.g_map and has_prefix(prefix, k), '
                             'exists(lambda j=Int: 0 <= j and j < len(result) and result[j][0] == k)))'),
                     ('order', 'forall(lambda i=Int, j=Int: implies(0 <= i and i < j and j < len(result), '
                               'ite(reverse, blt(result[j][0], result[i][0]), blt(result[i][0], result[j][0]))))'),
                 ],
                 assumes_inv=False, maintains_inv=False,
                 trusted=T + 'iterator(prefix, reverse) yields exactly the rows with that prefix in (reverse) key order')
    reg.contract(KV + '.write_batch', params={'self': Obj(KV)}, returns=Obj(BATCH),
                 bind_result={'db': 'self'}, ensures=['forall(lambda k=Bytes: k not in result.g_ops)'],
                 assumes_inv=False, maintains_inv=False, trusted=T + 'write_batch() starts an empty batch')
    reg.contract(BATCH + '.put', params={'self': Obj(BATCH), 'key': KBytes, 'value': KBytes}, modifies=['self.g_ops'],
                 ensures=['self.g_ops == store(old(self.g_ops), key, value)'],
                 assumes_inv=False, maintains_inv=False, trusted=T + 'batch operations are recorded in program order')
    reg.contract(BATCH + '.delete', params={'self': Obj(BATCH), 'key': KBytes}, modifies=['self.g_ops'],
                 ensures=['self.g_ops == store(old(self.g_ops), key, None)'],
                 assumes_inv=False, maintains_inv=False, trusted=T + 'batch operations are recorded in program order')
    reg.contract(BATCH + '.__enter__', params={'self': Obj(BATCH)}, assumes_inv=False, maintains_inv=False,
                 trusted=T + 'entering the batch context')
    # normal exit: all operations applied atomically; exceptional exit: nothing
    reg.contract(BATCH + '.__exit__', params={'self': Obj(BATCH), 'failed': Bool}, modifies=['self.db.g_map', 'self.db.g_commits'],
                 ensures=[
                     ('one-durable-event', 'self.db.g_commits == old(self.db.g_commits) + ite(failed, 0, 1)'),
                     ('nothing-on-exception', 'implies(failed, self.db.g_map == old(self.db.g_map))'),
                     ('applied', 'implies(not failed, forall(lambda k=Bytes: '
                                 'ite(k in self.g_ops, ite(is_none(lookup(self.g_ops, k)), k not in self.db.g_map,'
                                 ' k in self.db.g_map and lookup(self.db.g_map, k) == some(lookup(self.g_ops, k))),'
                                 ' (k in self.db.g_map) == (k in old(self.db.g_map)) and '
                                 ' implies(k in self.db.g_map, lookup(self.db.g_map, k) == lookup(old(self.db.g_map), k)))))'),
                 ],
                 assumes_inv=False, maintains_inv=False, commit='kv-batch',
                 trusted=T + 'a write batch (transaction=True, sync=True) is applied atomically on normal exit only')
