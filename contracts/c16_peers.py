'''C16 (part 3) - server.add_peer: PeerManager.on_add_peer for an arbitrary JSON feature value.'''
from pyvc.dsl import *
from pyvc.builtins import KJ, KBytes, KStr

PM = 'electrumx/server/peers.py:PeerManager'
PEER = 'electrumx/lib/peer.py:Peer'


def register(reg):
    Opaque = reg.usort('Opaque')
    NetAddr = reg.usort('NetAddr', attrs={'host': KStr})
    PeerRef = reg.usort('PeerRef', attrs={'host': KStr, 'ip_address': Opt(Opaque), 'is_tor': Bool, 'is_public': Bool,
                                          'source': KStr})
    reg.cls('ext:PMEnv', fields={'peer_discovery': Int, 'PD_ON': Int})
    reg.cls(PM, fields={'env': Obj('ext:PMEnv'), 'recent_peer_adds': Dict(KStr, Real), 'permit_onion_peer_time': Real})
    reg.inline.add(PM + '._permit_new_onion_peer')

    # T-DNS: loop.getaddrinfo resolves or raises gaierror - or UnicodeError when the host cannot be
    # IDNA-encoded (empty or over-long label, lone surrogate): it is called with a client-chosen string
    reg.builtin('opaque.getaddrinfo', params={'self_': KJ, 'host': KStr, 'port': Int},
                returns=List(Tuple(Int, Int, Int, KStr, Tuple(KStr, Int))),
                raises={'socket.gaierror': [], 'UnicodeError': []},
                trusted='T-DNS: loop.getaddrinfo returns a list or raises socket.gaierror, or UnicodeError when IDNA '
                        'encoding of the host fails')
    reg.contract(PEER + '.peers_from_features', params={'features': KJ, 'source': KStr},
                 returns=List(PeerRef),
                 trusted='A-CALLEE: Peer.peers_from_features is total for every JSON value (its parts are verified under C19)')
    reg.contract(PM + '._note_peers', params={'peers': List(PeerRef), 'limit': Int, 'check_ports': Bool, 'source': Opt(KStr)},
                 returns=Bool,
                 trusted='A-CALLEE: PeerManager._note_peers is total (operates on Peer objects built by Peer.__init__)')
    reg.contract(PM + '.on_add_peer', params={'features': KJ, 'source_addr': Opt(NetAddr)}, returns=Bool,
                 raises={}, ensures=[], props=['C16'])
