'''C18, second part: batched calls and block-to-file streaming (electrumx/server/daemon.py).

  _send_vector.processor   a reply in which ANY item is still "warming up" is not an answer (WarmingUpError, retried by
                           _send) - also when errors are being replaced; genuine errors raise DaemonError unless
                           replace_errs; otherwise the results are returned positionally aligned with the reply items.
  _send_vector             an empty request list is answered [] without contacting the daemon; otherwise the contract of
                           _send carries over (daemon assumed to answer a batch in request order: A-BATCH-ORDER).
  _get_to_file             whatever earlier attempts left in the target file, a returning attempt leaves exactly the bytes
                           of THIS attempt's response in it and returns their number (the file is truncated on entry).
  get_block, block_hex_hashes, getrawtransactions   wrappers: contract of _send carries over.
'''
from pyvc.dsl import *
from pyvc.builtins import KJ, KBytes, KStr

D = 'electrumx/server/daemon.py:Daemon'
U = 'electrumx/lib/util.py:'

ERR = OneOf(Const(None), Record(code=KJ, message=KStr))
ITEM = Record(error=ERR, result=KJ)
CHUNK = Tuple(KBytes, Bool)


def register(reg):
    from contracts.c18_daemon import FAULTS
    dspec = reg.classes[D]
    E = 'result[i]["error"]'
    INR = '0 <= i and i < len(result)'
    ISERR = f'truthy_j({E})'
    WARM = f'({ISERR} and "code" in {E} and py_eq({E}["code"], -28))'
    SHAPE = (f'forall(lambda i=Int: implies({INR}, isinstance(result[i], dict) and "error" in result[i] and "result" in result[i] '
             f'and (is_none({E}) or isinstance({E}, dict))))')

    reg.contract(
        D + '._send_vector.<locals>.processor', params={'result': List(KJ)},
        closure_env={'self': Obj(D), 'replace_errs': Bool}, returns=List(KJ),
        requires=[('json-rpc-batch-reply-shape', SHAPE)],
        raises={'WarmingUpError': [f'exists(lambda i=Int: {INR} and {WARM})'],                 # some item is warming up
                'DaemonError': [f'not replace_errs and exists(lambda i=Int: {INR} and {ISERR})',  # genuine errors, not replaced
                                f'forall(lambda i=Int: implies({INR}, not {WARM}))']},
        ensures=[('aligned', f'len(ret) == len(result) and forall(lambda i=Int: implies({INR}, ret[i] == result[i]["result"]))'),
                 ('never-an-answer-while-warming-up', f'forall(lambda i=Int: implies({INR}, not {WARM}))'),
                 ('errors-only-if-replacing', f'replace_errs or forall(lambda i=Int: implies({INR}, not {ISERR}))')],
        props=['C18'])

    from contracts.c18_daemon import AVAIL_SRC as AVAIL
    POST = [('answered', 'implies(len(old(params_iterable)) > 0, self.g_F[q] == 0 and self.g_p == q + 1)'),
            ('genuine', 'implies(len(old(params_iterable)) > 0, result == genuine(self.url_index, q))'),
            ('empty-batch-is-answered-locally', 'implies(len(old(params_iterable)) == 0, self.g_p == old(self.g_p) and '
                                                'self.url_index == old(self.url_index) and isinstance(result, list) and not truthy_j(result))')]
    RAISES = {'DaemonError': ['self.g_F[q] == 8', 'self.g_p == q + 1', 'len(old(params_iterable)) > 0']}
    MOD = ['self.g_p', 'self.url_index', 'self.g_fo']
    reg.contract(D + '._send_vector', params={'method': KStr, 'params_iterable': List(KJ), 'replace_errs': Bool},
                 defaults={'replace_errs': 'False'}, returns=KJ, ghost_params={'q': Int},
                 requires=[('finite-faults-then-availability', AVAIL)], raises=RAISES, modifies=MOD, ensures=POST,
                 props=['C18'])
    # wrappers: the contract of _send_vector carries over
    reg.contract(D + '.block_hex_hashes', params={'first': Int, 'count': Int}, returns=KJ, ghost_params={'q': Int},
                 requires=[('finite-faults-then-availability', AVAIL), 'first >= 0 and count >= 0'],
                 raises={'DaemonError': ['self.g_F[q] == 8', 'self.g_p == q + 1', 'count > 0']}, modifies=MOD,
                 ensures=[('answered', 'implies(count > 0, self.g_F[q] == 0 and self.g_p == q + 1)'),
                          ('genuine', 'implies(count > 0, result == genuine(self.url_index, q))'),
                          ('nothing-asked', 'implies(count == 0, self.g_p == old(self.g_p) and not truthy_j(result))')],
                 props=['C18'])

    # ---- block-to-file streaming ----------------------------------------------------------------------------------------
    # T-FILE: open(name, 'wb+') truncates; write appends at the end and returns len(b).  T-HTTP: a response is a sequence of
    # chunks; entering the request or reading any chunk may raise one of the transient fault classes.
    reg.specfun('catn', [List(CHUNK), Int], KBytes)        # concatenation of the first n chunk payloads
    reg.axiom('catn_zero', {'l': List(CHUNK)}, 'len(catn(l, 0)) == 0')
    reg.axiom('catn_succ', {'l': List(CHUNK), 'n': Int}, 'implies(n >= 0, catn(l, n + 1) == catn(l, n) + l[n][0])')
    F = 'ext:BlockFile'
    reg.cls(F, fields={}, ghost={'g_name': KStr, 'g_content': KBytes},
            methods={'write': F + '.write', '__enter__': F + '.__enter__', '__exit__': F + '.__exit__'})
    reg.contract(F + '.__enter__', params={'self': Obj(F)}, assumes_inv=False, maintains_inv=False, trusted='T-FILE: context entry of an open file')
    reg.contract(F + '.__exit__', params={'self': Obj(F), 'failed': Bool}, assumes_inv=False, maintains_inv=False,
                 trusted='T-FILE: closing a file keeps its content')
    reg.contract(F + '.write', params={'self': Obj(F), 'b': KBytes}, returns=Int, modifies=['self.g_content'],
                 assumes_inv=False, maintains_inv=False,
                 ensures=['self.g_content == old(self.g_content) + b', 'result == len(b)'],
                 trusted='T-FILE: write appends at the end of a file opened with wb+ and never seeked, and returns len(b)')
    reg.contract(U + 'open_truncate', params={'filename': KStr}, returns=Obj(F), assumes_inv=False, maintains_inv=False,
                 ensures=['result.g_name == filename', 'len(result.g_content) == 0'],
                 trusted='T-FILE: open(filename, "wb+") creates or truncates the file')
    R, C, HS = 'ext:HTTPResponse', 'ext:HTTPContent', 'ext:HTTPSession'
    fault_raises = {name: [] for name in FAULTS.values()}
    reg.cls(C, fields={}, ghost={'g_chunks': List(CHUNK)}, methods={'iter_chunks': C + '.iter_chunks'})
    reg.contract(C + '.iter_chunks', params={'self': Obj(C)}, returns=List(CHUNK), assumes_inv=False, maintains_inv=False,
                 ensures=['result == self.g_chunks'], raises=fault_raises,
                 trusted='T-HTTP: the response body arrives as a finite sequence of chunks (a fault while streaming is one of the '
                         'transient classes; modelled as raised before the first chunk is consumed or between chunks)')
    reg.cls(R, fields={'headers': Dict(KStr, KStr), 'reason': KStr, 'content': Obj(C)},
            methods={'text': R + '.text', '__enter__': R + '.__enter__', '__exit__': R + '.__exit__'})
    reg.contract(R + '.__enter__', params={'self': Obj(R)}, raises=fault_raises, assumes_inv=False, maintains_inv=False,
                 trusted='T-HTTP: sending the request may raise a transient fault')
    reg.contract(R + '.__exit__', params={'self': Obj(R), 'failed': Bool}, assumes_inv=False, maintains_inv=False,
                 trusted='T-HTTP: releasing the response')
    reg.contract(R + '.text', params={'self': Obj(R)}, returns=KStr, raises=fault_raises, assumes_inv=False, maintains_inv=False,
                 trusted='T-HTTP: body as text')
    reg.cls(HS, fields={}, ghost={'g_last_url': KStr}, methods={'get': HS + '.get'})
    reg.contract(HS + '.get', params={'self': Obj(HS), 'url': KStr}, returns=Obj(R), assumes_inv=False, maintains_inv=False,
                 modifies=['self.g_last_url'], ensures=['self.g_last_url == url'],
                 trusted='T-HTTP: session.get(url) is the response to a GET of that URL (ghost g_last_url: the URL asked)')
    dspec.fields['session'] = Obj(HS)
    dspec.fields['block_semaphore'] = reg.usort('Opaque')
    dspec.ghost['g_file'] = Obj(F)        # the file object the last streaming attempt wrote to (ghost observer)
    dspec.ghost['g_resp'] = Obj(R)
    allr = dict(fault_raises)
    reg.contract(
        D + '._get_to_file', params={'rest_url': KStr, 'filename': KStr}, returns=Int, raises=allr,
        modifies=['self.g_file', 'self.g_resp', 'self.session.g_last_url'],
        ghost={('before', 'size = 0'): ['self.g_file = file', 'self.g_resp = resp']},
        ensures=[('target-file', 'self.g_file.g_name == filename'),
                 # only a binary block response is written and counted; anything else (an HTML / text error page) is a refusal
                 ('only-a-block-response-is-accepted', '"Content-Type" in self.g_resp.headers and '
                                                       'lookup(self.g_resp.headers, "Content-Type") == "application/octet-stream"'),
                 # every attempt asks the daemon that is current at that attempt (fail-over moves url_index between attempts)
                 ('asks-the-current-daemon', 'self.session.g_last_url == self.urls[self.url_index] + rest_url'),
                 ('file-holds-exactly-this-attempts-body',
                  'self.g_file.g_content == catn(self.g_resp.content.g_chunks, len(self.g_resp.content.g_chunks))'),
                 ('size', 'result == len(self.g_file.g_content)')],
        loops={0: LoopSpec('for part, _ in resp.content.iter_chunks()',
                           invariants=[('written', 'file.g_content == catn(resp.content.g_chunks, _i)'),
                                       ('size', 'size == len(file.g_content)')],
                           modifies=['file.g_content', 'size'],
                           ghost_begin=['use("catn_succ", resp.content.g_chunks, _i)'],
                           ghost_pre=['use("catn_zero", resp.content.g_chunks)'])},
        props=['C18'])
    reg.contract(D + '.current_url', params={}, returns=KStr, raises={}, ensures=['result == self.urls[self.url_index]'], props=['C18'])
    reg.contract(D + '.get_block', params={'hex_hash': KStr, 'filename': KStr}, returns=KJ, ghost_params={'q': Int},
                 requires=[('finite-faults-then-availability', AVAIL)],
                 raises={'DaemonError': ['self.g_F[q] == 8', 'self.g_p == q + 1']}, modifies=MOD,
                 ensures=[('answered', 'self.g_F[q] == 0 and self.g_p == q + 1'), ('genuine', 'result == genuine(self.url_index, q)')],
                 props=['C18'])
