'''C19 - only verified, public, recently good peers are advertised, spread over networks.

Part A (electrumx/lib/peer.py): a peer built from an arbitrary announced feature dictionary has ports
that are valid or absent; is_public is defined through a syntactically valid hostname or a routable,
non-private address (ipaddress predicates are the property's own vocabulary: uninterpreted, T-IP).
Part B (electrumx/server/peers.py): _get_recent_good_peers and on_peers_subscribe.
'''
from pyvc.dsl import *
from pyvc.builtins import KJ, KBytes, KStr

PEER = 'electrumx/lib/peer.py:Peer'
PM = 'electrumx/server/peers.py:PeerManager'


def register(reg):
    Opaque = reg.usort('Opaque')
    IP = reg.usort('IPAddr', attrs={'is_global': Bool, 'is_private': Bool, 'is_multicast': Bool, 'is_unspecified': Bool,
                                    'version': Int})
    # ---- Part A: Peer over JSON features ---------------------------------------------------------------
    reg.specfun('ip_ok', [KStr], Bool)          # the string parses as an IP address
    reg.specfun('ip_of', [KStr], IP)            # ... and this is the address
    reg.cls(PEER, fields={'host': KStr, 'features': KJ, 'ip_addr': Opt(KStr), 'source': KStr},
            inv=[('features-is-dict', 'isinstance(self.features, dict)')])
    reg.contract(PEER + '._integer', params={'key': KStr, 'd': KJ}, returns=Opt(Int), raises={},
                 ensures=[], props=['C19', 'C16'])
    reg.contract(PEER + '._string', params={'key': KStr}, returns=Opt(KStr), raises={}, ensures=[], props=['C19', 'C16'])
    reg.contract(PEER + '._port', params={'key': KStr}, returns=Opt(Int), raises={},
                 ensures=[('valid-or-absent', 'is_none(result) or (0 < result and result < 65536)')],
                 props=['C19', 'C16'])
    reg.contract(PEER + '.pruning', params={}, returns=Opt(Int), raises={},
                 ensures=[('positive-or-absent', 'is_none(result) or result > 0')], props=['C19', 'C16'])
    reg.contract(PEER + '._protocol_version_string', params={'key': KStr}, returns=KStr, raises={}, ensures=[],
                 props=['C19', 'C16'])
    # T-IP / T-RPCX: the vocabulary of the statement
    reg.builtin('ip_address', params={'host': KStr}, returns=IP, raises={'ValueError': ['not ip_ok(host)']},
                ensures=['ip_ok(host) and result == ip_of(host)'],
                trusted='T-IP: ipaddress.ip_address(str) returns an address object or raises ValueError')
    reg.specfun('valid_hostname', [KStr], Bool)
    reg.builtin('aiorpcx.is_valid_hostname', params={'host': KStr}, returns=Bool,
                ensures=['result == valid_hostname(host)'],
                trusted='T-RPCX: aiorpcx.is_valid_hostname is a predicate on the string (syntactic validity)')
    reg.contract(PEER + '.ip_address', params={}, returns=Opt(IP), raises={},
                 ensures=[('def', 'is_none(result) == (not ip_ok(self.host))'),
                          ('val', 'implies(ip_ok(self.host), some(result) == ip_of(self.host))')], props=['C19'])
    reg.contract(PEER + '.is_valid', params={}, returns=Bool, raises={},
                 ensures=[('def', 'implies(not ip_ok(self.host), result == valid_hostname(self.host))'),
                          ('def-ip', 'implies(ip_ok(self.host), result == ((ip_of(self.host).is_global or ip_of(self.host).is_private)'
                                     ' and not (ip_of(self.host).is_multicast or ip_of(self.host).is_unspecified)))')],
                 props=['C19'])
    reg.contract(PEER + '.is_public', params={}, returns=Bool, raises={},
                 ensures=[('hostname', 'implies(result and not ip_ok(self.host), valid_hostname(self.host) and self.host != "localhost")'),
                          ('address', 'implies(result and ip_ok(self.host), ip_of(self.host).is_global'
                                      ' and not ip_of(self.host).is_private and not ip_of(self.host).is_multicast'
                                      ' and not ip_of(self.host).is_unspecified)')],
                 props=['C19'])
    register_b(reg)
    reg.globals_['DictStrPeer'] = None
    register_c(reg)


def register_b(reg):
    Opaque = reg.usort('Opaque')
    PeerRef = reg.usort('PeerRef', attrs={'host': KStr, 'ip_address': Opt(Opaque), 'is_tor': Bool, 'is_public': Bool,
                                          'source': KStr, 'last_good': Real, 'bad': Bool, 'last_try': Real, 'try_count': Int,
                                          'ip_addr': Opt(KStr)})
    reg.specfun('ext_bucket', [PeerRef], KStr)
    reg.specfun('peer_tuple', [PeerRef], Opaque)
    reg.builtin('U.bucket_for_external_interface', params={'self_': PeerRef}, returns=KStr,
                ensures=['result == ext_bucket(self_)'], pure='ext_bucket(self_)',
                trusted='A-CALLEE: Peer.bucket_for_external_interface is a function of the peer (T-IP)')
    reg.specfun('int_bucket', [PeerRef], KStr)
    reg.builtin('U.bucket_for_internal_purposes', params={'self_': PeerRef}, returns=KStr,
                ensures=['result == int_bucket(self_)'], pure='int_bucket(self_)',
                trusted='A-CALLEE: Peer.bucket_for_internal_purposes is a function of the peer (T-IP)')
    reg.builtin('U.to_tuple', params={'self_': PeerRef}, returns=Opaque, ensures=['result == peer_tuple(self_)'],
                pure='peer_tuple(self_)',
                trusted='A-CALLEE: Peer.to_tuple is a function of the peer')
    reg.builtin('random.shuffle', params={'x': List(PeerRef)}, modifies=['x'],
                ensures=['len(x) == len(old(x))',
                         # a permutation: same members, no duplicates introduced
                         'forall(lambda j=Int: implies(0 <= j and j < len(x), exists(lambda i=Int: 0 <= i and i < len(x) and old(x)[i] == x[j])))',
                         'forall(lambda i=Int, j=Int: implies(0 <= i and i < j and j < len(x) and'
                         ' forall(lambda a=Int, b=Int: implies(0 <= a and a < b and b < len(x), old(x)[a] != old(x)[b])), x[i] != x[j]))'],
                trusted='T-RANDOM: random.shuffle leaves an arbitrary permutation')
    pm = reg.classes[PM]
    pm.fields['peers'] = Set(PeerRef)
    pm.fields['myselves'] = List(PeerRef)

    RECENT = ('p in self.peers and p.last_good > g_cutoff and not p.bad and p.is_public')
    reg.contract(PM + '._get_recent_good_peers', params={}, returns=List(PeerRef), raises={},
                 ghost_results={'g_cutoff': Real},
                 ghost={('after', 'cutoff = time.time() - STALE_SECS'): ['g_cutoff = cutoff']},
                 ensures=[('filter', 'forall(lambda j=Int: implies(0 <= j and j < len(result), let(lambda p=result[j]: ' + RECENT + ')))'),
                          ('complete', 'forall(lambda p=PeerRef: implies(' + RECENT + ', exists(lambda j=Int: 0 <= j and j < len(result) and result[j] == p)))'),
                          ('distinct', 'forall(lambda i=Int, j=Int: implies(0 <= i and i < j and j < len(result), result[i] != result[j]))')],
                 props=['C19'])


def register_c(reg):
    from pyvc.engine import VKind
    PeerRef = reg.kinds['PeerRef']
    reg.globals_['DictStrPeer'] = VKind(Dict(KStr, PeerRef))
    RECENT = '({P} in self.peers and {P}.last_good > g_cutoff and not {P}.bad and {P}.is_public)'
    R = lambda p: RECENT.format(P=p)
    reg.contract(
        PM + '.on_peers_subscribe', params={'is_tor': Bool}, raises={},
        # names of the function's locals / ghost locals its postcondition speaks about (witnesses for callers)
        ghost_results={'peers0': Set(PeerRef), 'g_peers': Set(PeerRef), 'peers1': Set(PeerRef), 'onion1': List(PeerRef),
                       'w1': Dict(KStr, PeerRef), 'w2': Dict(KStr, PeerRef), 'cutoff': Real, 'g_cutoff': Real,
                       'max_onion': Int},
        locals={'buckets': Dict(KStr, List(PeerRef)), 'onion_peers': List(PeerRef), 'peers': Set(PeerRef)},
        ghost={
            ('after', 'recent = self._get_recent_good_peers()'): [
                'w1 = fresh(DictStrPeer)', 'w2 = fresh(DictStrPeer)'],
            ('after', 'buckets = defaultdict(list)'): ['peers0 = copy(peers)'],
            ('before', 'peers.update(onion_peers*'): ['peers1 = copy(peers)', 'onion1 = copy(onion_peers)'],
            ('before', 'return [peer.to_tuple() for peer in peers]'): ['g_peers = copy(peers)'],
        },
        ensures=[
            ('own-identities', 'forall(lambda p=PeerRef: implies(p in peers0, p.last_good > cutoff and'
                               ' exists(lambda j=Int: 0 <= j and j < len(self.myselves) and self.myselves[j] == p)))'),
            ('members', 'forall(lambda p=PeerRef: implies(p in g_peers, p in peers0 or ' + R('p') + '))'),
            ('two-per-bucket', 'forall(lambda p=PeerRef: implies(p in g_peers and not p.is_tor and p not in peers0,'
                               ' p == lookup(w1, ext_bucket(p)) or p == lookup(w2, ext_bucket(p))))'),
            ('onion-bounded', 'forall(lambda p=PeerRef: implies(p in g_peers and p.is_tor and p not in peers0,'
                              ' exists(lambda j=Int: 0 <= j and j < max_onion and j < len(onion1) and onion1[j] == p)))'),
            ('onion-cap', 'max_onion <= 50 or max_onion <= 10 or 4 * max_onion <= card(peers1)'),
        ],
        loops={
            0: LoopSpec('for peer in recent', invariants=[
                ('onion', 'forall(lambda j=Int: implies(0 <= j and j < len(onion_peers), let(lambda q=onion_peers[j]: '
                          + R('q') + ' and q.is_tor)))'),
                ('buckets', 'forall(lambda b=Str, j=Int: implies(b in buckets and 0 <= j and j < len(lookup(buckets, b)),'
                            ' let(lambda q=lookup(buckets, b)[j]: ' + R('q') + ' and not q.is_tor and ext_bucket(q) == b)))'),
            ]),
            1: LoopSpec('for bucket_peers in buckets.values()', invariants=[
                ('picked', 'forall(lambda p=PeerRef: implies(p in peers, p in peers0 or (' + R('p') + ' and not p.is_tor'
                           ' and ext_bucket(p) in _done and (p == lookup(w1, ext_bucket(p)) or p == lookup(w2, ext_bucket(p))))))'),
            ], modifies=['w1', 'w2'],
                ghost_end=['w1 = store(w1, _key, bucket_peers[0])', 'w2 = store(w2, _key, bucket_peers[1])']),
        },
        props=['C19'])
