'''C04 / C14 - History.open_db: what every (re)start of the history database does, in which order.

  * the state record is read first, then the scrubber runs with the flush count of the UTXO database it is GIVEN (the committed
    one): afterwards the history's flush count does not exceed it, and every row above it is gone (contract of clear_excess);
  * an unfinished compaction is forgotten unless the database is opened FOR compacting (a restart of the server in the middle of
    a compaction must not leave a cursor behind);
  * the count returned to DB._open_dbs (which stores it as the UTXO state's flush count) is the history's count after scrubbing.
'''
from pyvc.dsl import *
from pyvc.builtins import KJ, KBytes, KStr

HIST = 'electrumx/server/history.py:History'
KV = 'ext:KV'


def register(reg):
    reg.contract('ext:open_kv', params={'name': KStr, 'for_sync': Bool}, returns=Obj(KV), assumes_inv=False, maintains_inv=False,
                 ensures=['result.for_sync == for_sync'],
                 trusted='T-LDB: db_class(name, for_sync) opens the named database')
    hs = reg.classes[HIST]
    hs.ghost['g_loaded'] = Int
    LAYOUT = 'forall(lambda k=Bytes: implies(k in self.db.g_map, len(k) >= 2 and fid(k) == beu_dec(k[len(k) - 2:len(k)])))'
    V_READ = Contract(HIST + '.read_state', params={}, raises={'RuntimeError': []}, assumes_inv=False, maintains_inv=False,
                      modifies=['self.flush_count', 'self.comp_flush_count', 'self.comp_cursor', 'self.db_version', 'self.upgrade_cursor'],
                      ensures=['self.flush_count == self.g_loaded', LAYOUT, 'fid(STATEKEY) == 0'],
                      trusted='read_state loads the five counters from the state record (T-STR: literal_eval of the repr written by '
                              'write_state); the key layout of the database just opened is the data-structure invariant of the history DB')
    reg.contract(
        HIST + '.open_db', params={'db_class': Callable('ext:open_kv'), 'for_sync': Bool, 'utxo_flush_count': Int, 'compacting': Bool},
        requires=[('count', 'utxo_flush_count >= 0')], returns=Int, raises={'RuntimeError': []}, assumes_inv=False, maintains_inv=False,
        modifies=['self.db', 'self.flush_count', 'self.comp_flush_count', 'self.comp_cursor', 'self.db_version', 'self.upgrade_cursor'],
        views={HIST + '.read_state': V_READ},
        ensures=[('scrubbed-with-the-committed-count', 'self.flush_count <= max(self.g_loaded, 0) and '
                                                       'implies(self.g_loaded > utxo_flush_count, self.flush_count == utxo_flush_count) and '
                                                       'implies(self.g_loaded <= utxo_flush_count, self.flush_count == self.g_loaded)'),
                 ('no-row-above-the-committed-count', 'implies(self.g_loaded > utxo_flush_count, forall(lambda k=Bytes: '
                                                      'implies(k in self.db.g_map and k != STATEKEY, fid(k) <= utxo_flush_count)))'),
                 ('unfinished-compaction-forgotten-unless-compacting', 'implies(not compacting, self.comp_cursor == -1)'),
                 ('returns-the-scrubbed-count', 'result == self.flush_count')],
        portfolio=True, props=['C04', 'C14'])
