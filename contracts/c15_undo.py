'''C15 - exactly the configured window of recent blocks can be undone (electrumx/server/db.py).

Undo rows of the UTXO DB have keys b'U' + be32(height) (layout invariant, ghost function uh(key) = height).
  min_undo_height(m) = m - reorg_limit + 1
  clear_excess_undo_info(): afterwards no undo row below state.height - limit + 1 remains and every row at or
  above it remains (the early break of the scan is sound because be32 preserves order).
Window lemma (contracts only): block h indexed while the daemon reported dh(h) keeps its undo row iff
h >= dh(h) - limit + 1; caught up at T with dh(h) <= T, every h in [T - limit + 1, T] has one.
'''
from pyvc.dsl import *
from pyvc.builtins import KJ, KBytes, KStr

DBK = 'electrumx/server/db.py:DB'
UKEY = 'concat(UPFX, beu_enc(h, 4))'


def register(reg):
    reg.specfun('beu_enc', [Int, Int], KBytes)
    reg.specfun('beu_dec', [KBytes], Int)
    reg.specfun('uh', [KBytes], Int)                   # height encoded in an undo key
    reg.globals_['UPFX'] = b'U'
    # T-STRUCT: big-endian fixed-width encoding preserves order; keys with a common prefix compare by the rest
    reg.axiom('be32_order', {'a': Int, 'b': Int},
              'implies(0 <= a and a < 4294967296 and 0 <= b and b < 4294967296,'
              ' blt(concat(UPFX, beu_enc(a, 4)), concat(UPFX, beu_enc(b, 4))) == (a < b))', kind='assumed')
    UROWS = ('forall(lambda k=Bytes: implies(k in self.utxo_db.g_map and has_prefix(UPFX, k),'
             ' len(k) == 5 and uh(k) == beu_dec(k[1:5]) and 0 <= uh(k) and uh(k) < 4294967296))')
    # T-STRUCT: be32 preserves order, so undo keys sort by height
    UORDER = ('forall(lambda a=Bytes, b=Bytes: implies(a in self.utxo_db.g_map and b in self.utxo_db.g_map and '
              'has_prefix(UPFX, a) and has_prefix(UPFX, b), blt(a, b) == (uh(a) < uh(b))))')

    reg.contract(DBK + '.min_undo_height', params={'max_height': Int}, returns=Int, raises={}, assumes_inv=False, maintains_inv=False,
                 ensures=[('def', 'result == max_height - self.env.reorg_limit + 1')], props=['C15'])
    reg.contract(DBK + '.undo_key', params={'height': Int}, returns=KBytes, assumes_inv=False, maintains_inv=False,
                 raises={'struct.error': ['height < 0 or height >= 4294967296']},
                 ensures=[('def', 'result == concat(UPFX, beu_enc(height, 4))'), ('range', '0 <= height and height < 4294967296')],
                 props=['C15'])
    reg.contract(DBK + '.read_undo_info', params={'height': Int}, returns=Opt(KBytes),
                 requires=['0 <= height and height < 4294967296'], raises={},
                 ensures=[('def', 'is_none(result) == (concat(UPFX, beu_enc(height, 4)) not in self.utxo_db.g_map)')],
                 props=['C15'])
    reg.contract(
        DBK + '.clear_excess_undo_info', params={}, raises={}, portfolio=True,
        requires=[('undo-row-layout', UROWS), ('undo-key-order', UORDER)],
        modifies=['self.utxo_db.g_map'],
        ensures=[
            ('stale-removed', 'forall(lambda k=Bytes: implies(k in self.utxo_db.g_map and has_prefix(UPFX, k),'
                              ' uh(k) >= self.state.height - self.env.reorg_limit + 1))'),
            ('window-kept', 'forall(lambda k=Bytes: implies(k in old(self.utxo_db.g_map) and has_prefix(UPFX, k) and'
                            ' uh(k) >= self.state.height - self.env.reorg_limit + 1, k in self.utxo_db.g_map and '
                            ' lookup(self.utxo_db.g_map, k) == lookup(old(self.utxo_db.g_map), k)))'),
            ('others-untouched', 'forall(lambda k=Bytes: implies(not has_prefix(UPFX, k), (k in self.utxo_db.g_map) == (k in old(self.utxo_db.g_map))'
                                 ' and implies(k in self.utxo_db.g_map, lookup(self.utxo_db.g_map, k) == lookup(old(self.utxo_db.g_map), k))))'),
        ],
        locals={'keys': List(KBytes)},
        loops={
            0: LoopSpec('for key, _hist in self.utxo_db.iterator(prefix=prefix)',
                        invariants=[
                            ('collected', 'len(keys) == _i and forall(lambda j=Int: implies(0 <= j and j < _i, keys[j] == _it[j][0]'
                                          ' and uh(_it[j][0]) < min_height))'),
                        ]),
            1: LoopSpec('for key in keys',
                        invariants=[('batched', 'forall(lambda k=Bytes: (k in batch.g_ops) == exists(lambda j=Int: 0 <= j and j < _i and keys[j] == k))'),
                                    ('deletes', 'forall(lambda k=Bytes: implies(k in batch.g_ops, is_none(lookup(batch.g_ops, k))))')],
                        modifies=['batch.g_ops']),
        },
        ghost={('after', 'min_height = self.min_undo_height(self.state.height)'): []},
        props=['C15', 'C05'])

    # window lemma (composition over the contracts above): a block h indexed while the daemon reported dh keeps
    # its undo row iff h >= min_undo_height(dh); caught up at T with dh <= T, every h of the window has one,
    # and start-up (clear_excess_undo_info at height T) keeps exactly the rows >= T - limit + 1
    reg.lemma('undo_window', {'T': Int, 'L': Int, 'h': Int, 'dh': Int},
              ['L >= 1', 'dh <= T', 'T - L + 1 <= h', 'h <= T'],
              'h >= dh - L + 1 and h >= T - L + 1', props=['C15'])
    reg.lemma('undo_window_limit_plus_one', {'T': Int, 'L': Int, 'h': Int},
              ['L >= 1', 'h == T - L'], 'not (h >= T - L + 1)', props=['C15'])
