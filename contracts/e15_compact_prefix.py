'''C14 - History._compact_prefix: grouping of the rows of one 2-byte prefix by script hash.

History rows have 13-byte keys hashX(11) + row id(2); the iterator yields them in key order, so the rows of one script hash
are contiguous.  Proved for every database content:
  * every call of _compact_hashX(hashX, hist_map, hist_list, ...) receives in hist_map EXACTLY the 13-byte-key rows of that
    script hash that are in the database - all of them, none of another script hash - and in hist_list their values in key
    order (ghost g_keys: the keys parallel to hist_list);
  * every 13-byte-key row with the prefix belongs to a script hash that was handed to _compact_hashX (the last group too);
  * rows with keys of another length (the state record) are ignored.
T-LEX (axiom lex_prefix_interval): a byte string lying lexicographically between two strings that share their first n bytes
shares those n bytes too.  What _compact_hashX does with a group is a bounded stand-in.
'''
from pyvc.dsl import *
from pyvc.builtins import KJ, KBytes, KStr

HIST = 'electrumx/server/history.py:History'
WI = List(Tuple(KBytes, KBytes))
G = 'self.db.g_map'


def register(reg):
    # hxof(k): the script hash of a 13-byte history key.  Kept uninterpreted inside the quantified invariants (byte slices
    # under quantifiers make both solvers diverge) and unfolded where the code computes key[:-2].
    reg.specfun('hxof', [KBytes], KBytes)
    reg.axiom('hxof_def', {'k': KBytes}, 'implies(len(k) == 13, hxof(k) == k[0:11] and len(hxof(k)) == 11)')
    # T-LEX: a 13-byte key lying lexicographically between two 13-byte keys of one script hash is a key of that script hash
    reg.axiom('lex_group', {'a': KBytes, 'b': KBytes, 'c': KBytes},
              'implies(blt(a, c) and blt(c, b) and len(a) == 13 and len(b) == 13 and len(c) == 13 and hxof(a) == hxof(b), '
              'hxof(c) == hxof(a))')
    # T-LEX: two 13-byte keys of one script hash share every prefix of at most 11 bytes
    reg.axiom('group_prefix', {'a': KBytes, 'b': KBytes, 'p': KBytes},
              'implies(len(a) == 13 and len(b) == 13 and hxof(a) == hxof(b) and len(p) <= 11 and has_prefix(p, a), has_prefix(p, b))')
    h = reg.classes[HIST]
    h.ghost['g_hx'] = Set(KBytes)            # script hashes handed to _compact_hashX so far
    NOSTATE = ('(STATEKEY not in keys_to_delete and '
               'forall(lambda j=Int: implies(0 <= j and j < len(write_items), write_items[j][0] != STATEKEY)))')
    ROWS_OF = '(k in ' + G + ' and len(k) == 13 and hxof(k) == {hx})'
    reg.contract(
        HIST + '._compact_hashX',
        params={'hashX': KBytes, 'hist_map': Dict(KBytes, KBytes), 'hist_list': List(KBytes), 'write_items': WI,
                'keys_to_delete': Set(KBytes)},
        ghost_params={'g_keys': List(KBytes)}, returns=Int,
        requires=[('script-hash', 'len(hashX) == 11'),
                  ('map-is-exactly-the-rows-of-this-script-hash',
                   'forall(lambda k=Bytes: (k in hist_map) == ' + ROWS_OF.format(hx='hashX') + ' and '
                   'implies(k in hist_map, lookup(hist_map, k) == lookup(' + G + ', k)))'),
                  ('list-is-their-values-in-key-order',
                   'len(hist_list) == len(g_keys) and len(g_keys) >= 1 and '
                   'forall(lambda i=Int: implies(0 <= i and i < len(g_keys), g_keys[i] in hist_map and hist_list[i] == lookup(hist_map, g_keys[i]))) and '
                   'forall(lambda i=Int, j=Int: implies(0 <= i and i < j and j < len(g_keys), blt(g_keys[i], g_keys[j])))')],
        raises={}, assumes_inv=False, maintains_inv=False,
        modifies=['write_items', 'keys_to_delete', 'self.comp_flush_count', 'self.g_hx'],
        ensures=['result >= 0', 'self.comp_flush_count >= old(self.comp_flush_count)', 'self.g_hx == add(old(self.g_hx), hashX)',
                 # only 13-byte history keys are queued: the 7-byte state key never is
                 'implies(' + NOSTATE.replace('keys_to_delete', 'old(keys_to_delete)').replace('write_items', 'old(write_items)') + ', ' + NOSTATE + ')'],
        trusted='A-CALLEE: History._compact_hashX re-chunks the history of one script hash (bounded stand-in of C14); its '
                'PRECONDITIONS - what a correct grouping hands to it - are proved at both call sites in _compact_prefix')

    PFX = 'has_prefix(prefix, k)'
    SEEN = '(k in ' + G + ' and ' + PFX + ' and len(k) == 13 and lookup(g_pos, k) < _i)'
    reg.contracts[HIST + '._compact_prefix'] = None
    del reg.contracts[HIST + '._compact_prefix']
    reg.contract(
        HIST + '._compact_prefix', params={'prefix': KBytes, 'write_items': WI, 'keys_to_delete': Set(KBytes)}, returns=Int,
        requires=['len(prefix) == 2'], raises={}, assumes_inv=False, maintains_inv=False,
        modifies=['write_items', 'keys_to_delete', 'self.comp_flush_count', 'self.g_hx', 'self.g_done'],
        locals={'g_keys': List(KBytes), 'prior_hashX': Opt(KBytes), 'hist_map': Dict(KBytes, KBytes), 'hist_list': List(KBytes), 'lastj': Int},
        ghost={'entry': ['g_keys = listof(Bytes)', 'lastj = -1', 'nostate0 = ' + NOSTATE],
               'exit': ['self.g_done = snoc(self.g_done, beu_dec(prefix))'],
               ('after', 'hashX = key[:-2]'): ['use("hxof_def", key)', 'use("lex_group", _it[lastj][0], ANY, key)', 'use("lex_group", ANY, key, _it[lastj][0])',
                                               'use("group_prefix", key, ANY, prefix)', 'use("group_prefix", _it[lastj][0], ANY, prefix)'],
               ('after', 'hist_list.append(hist)'): ['g_keys = snoc(g_keys, key)'],
               ('after', 'hist_list.clear()'): ['g_keys = listof(Bytes)']},
        ensures=[('every-history-row-of-the-prefix-is-compacted',
                  'forall(lambda k=Bytes: implies(k in ' + G + ' and ' + PFX + ' and len(k) == 13, hxof(k) in self.g_hx))'),
                 ('size', 'result >= 0'),
                 ('counter-only-grows', 'self.comp_flush_count >= old(self.comp_flush_count)'),
                 ('logged', 'self.g_done == snoc(old(self.g_done), beu_dec(prefix))'),
                 ('state-key-never-queued', 'implies(' + NOSTATE.replace('keys_to_delete', 'old(keys_to_delete)').replace('write_items', 'old(write_items)') + ', ' + NOSTATE + ')')],
        loops={0: LoopSpec(
            'for key, hist in self.db.iterator(prefix=prefix)',
            invariants=[
                ('no-group-open-only-if-no-history-row-yet',
                 'implies(is_none(prior_hashX), forall(lambda k=Bytes: not ' + SEEN + '))'),
                ('open-group', 'implies(not is_none(prior_hashX), len(some(prior_hashX)) == 11 and 0 <= lastj and lastj < _i and '
                               'len(_it[lastj][0]) == 13 and hxof(_it[lastj][0]) == some(prior_hashX) and '
                               'forall(lambda j=Int: implies(lastj < j and j < _i, len(_it[j][0]) != 13)) and '
                               'forall(lambda k=Bytes: implies(k in ' + G + ' and len(k) == 13 and hxof(k) == some(prior_hashX), ' + PFX + ')))'),
                ('map-is-the-seen-rows-of-the-open-group',
                 'forall(lambda k=Bytes: (k in hist_map) == (not is_none(prior_hashX) and ' + SEEN + ' and hxof(k) == some(prior_hashX)) and '
                 'implies(k in hist_map, lookup(hist_map, k) == lookup(' + G + ', k)))'),
                ('list-parallel-to-keys',
                 'len(hist_list) == len(g_keys) and '
                 'forall(lambda i=Int: implies(0 <= i and i < len(g_keys), g_keys[i] in hist_map and hist_list[i] == lookup(hist_map, g_keys[i]) and '
                 'lookup(g_pos, g_keys[i]) < _i)) and '
                 'forall(lambda i=Int, j=Int: implies(0 <= i and i < j and j < len(g_keys), lookup(g_pos, g_keys[i]) < lookup(g_pos, g_keys[j]))) and '
                 '(len(g_keys) >= 1) == (not is_none(prior_hashX))'),
                ('closed-groups-are-compacted',
                 'forall(lambda k=Bytes: implies(' + SEEN + ' and (is_none(prior_hashX) or hxof(k) != some(prior_hashX)), hxof(k) in self.g_hx))'),
                ('size', 'write_size >= 0'),
                ('counter-only-grows', 'self.comp_flush_count >= old(self.comp_flush_count)'),
                ('state-key-never-queued', 'implies(nostate0, ' + NOSTATE + ')'),
            ],
            modifies=['write_items', 'keys_to_delete', 'self.comp_flush_count', 'self.g_hx', 'hist_map', 'hist_list', 'g_keys', 'lastj'],
            var_kinds={'lastj': Int, 'hashX': KBytes},
            ghost_begin=['cur_i = _i'],
        )},
        portfolio=True, props=['C14'])
    reg.contracts[HIST + '._compact_prefix'].ghost[('after', 'prior_hashX = hashX')] = ['lastj = cur_i']
