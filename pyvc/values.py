'''Kinds (static descriptors of symbolic Python values) and the value wrappers the
symbolic executor manipulates.

Encoding choices (DESIGN 2.2):
  int/bool       z3 Int / Bool (Python ints are unbounded: exact)
  list, tuple    (Array Int T, length)            -- never z3 Seq
  set            Array T Bool
  dict           (Array K V, Array K Bool)        -- iteration order arbitrary
  optional       resolved by path splitting the moment it is produced
  opaque values  uninterpreted sorts with uninterpreted operations
  JSON           algebraic datatype J
'''
import z3

_sort_cache = {}


def _dt(name, ctors):
    '''Create (and cache) a z3 datatype. ctors: [(ctor_name, [(field, sort)])]'''
    if name in _sort_cache:
        return _sort_cache[name]
    d = z3.Datatype(name)
    for cname, fields in ctors:
        d.declare(cname, *fields)
    s = d.create()
    _sort_cache[name] = s
    return s


class Kind:
    name = '?'

    def sort(self):
        raise NotImplementedError

    def wrap(self, term, ip=None):
        raise NotImplementedError

    def unwrap(self, v):
        raise NotImplementedError(f'cannot store {v!r} as {self.name}')

    def fresh(self, ip, hint='v'):
        return self.wrap(z3.Const(ip.fresh_name(hint), self.sort()), ip)

    def __repr__(self):
        return self.name

    def __eq__(self, other):
        return isinstance(other, Kind) and self.name == other.name

    def __hash__(self):
        return hash(self.name)


class _KInt(Kind):
    name = 'Int'

    def sort(self):
        return z3.IntSort()

    def wrap(self, term, ip=None):
        if z3.is_int_value(term):
            return VConst(term.as_long())
        return VInt(term)

    def unwrap(self, v):
        return int_term(v)


class _KBool(Kind):
    name = 'Bool'

    def sort(self):
        return z3.BoolSort()

    def wrap(self, term, ip=None):
        if z3.is_true(term):
            return VConst(True)
        if z3.is_false(term):
            return VConst(False)
        return VBool(term)

    def unwrap(self, v):
        return bool_term(v)


class _KReal(Kind):
    name = 'Real'

    def sort(self):
        return z3.RealSort()

    def wrap(self, term, ip=None):
        return VReal(term)

    def unwrap(self, v):
        return real_term(v)


KInt, KBool, KReal = _KInt(), _KBool(), _KReal()


class KU(Kind):
    '''An uninterpreted sort.  `ops` maps Python operators on values of this kind to
    uninterpreted function names (e.g. {'+': 'cat'}); `consts` maps Python literals to
    distinguished constants of the sort; `lenf` names an Int-valued length function.'''

    def __init__(self, name, ops=None, consts=None, lenf=None, slicef=None, attrs=None):
        self.name = name
        self.attrs = attrs or {}      # read-only attributes of immutable objects: name -> Kind
        self.ops = ops or {}
        self.consts = consts or {}
        self.lenf = lenf
        self.slicef = slicef
        self._sort = z3.DeclareSort(name)

    def sort(self):
        return self._sort

    def wrap(self, term, ip=None):
        return VU(term, self)

    def const(self, cname):
        return VU(z3.Const(cname, self._sort), self)

    def unwrap(self, v):
        if isinstance(v, VU) and v.kind == self:
            return v.t
        if isinstance(v, VConst) and v.py in self.consts:
            return z3.Const(self.consts[v.py], self._sort)
        raise TypeError(f'cannot store {v!r} as {self.name}')


class KList(Kind):
    def __init__(self, elem):
        self.elem = elem
        self.name = f'List_{elem.name}'

    def sort(self):
        return _dt(self.name, [('mk_' + self.name,
                                [('arr_' + self.name, z3.ArraySort(z3.IntSort(), self.elem.sort())),
                                 ('len_' + self.name, z3.IntSort())])])

    def wrap(self, term, ip=None):
        s = self.sort()
        return VList(s.accessor(0, 0)(term), s.accessor(0, 1)(term), self.elem)

    def unwrap(self, v):
        if isinstance(v, VTuple):
            v = tuple_to_list(v, self.elem)
        if not isinstance(v, VList):
            raise TypeError(f'cannot store {v!r} as {self.name}')
        if v.ek is None:
            v.ek = self.elem
            v.arr = empty_array(self.elem)
        return self.sort().constructor(0)(v.arr, v.n)

    def fresh(self, ip, hint='l'):
        arr = z3.Const(ip.fresh_name(hint + '_a'), z3.ArraySort(z3.IntSort(), self.elem.sort()))
        n = z3.Int(ip.fresh_name(hint + '_n'))
        ip.assume(n >= 0)
        return VList(arr, n, self.elem)


class KVarTuple(KList):
    '''A tuple of symbolic length (same representation as a list, flagged as a tuple).'''

    def wrap(self, term, ip=None):
        v = super().wrap(term, ip)
        v.ghost['tuple'] = True
        return v

    def fresh(self, ip, hint='t'):
        v = super().fresh(ip, hint)
        v.ghost['tuple'] = True
        return v


class KSet(Kind):
    def __init__(self, elem):
        self.elem = elem
        self.name = f'Set_{elem.name}'

    def sort(self):
        return z3.ArraySort(self.elem.sort(), z3.BoolSort())

    def wrap(self, term, ip=None):
        return VSet(term, self.elem)

    def unwrap(self, v):
        if not isinstance(v, VSet):
            raise TypeError(f'cannot store {v!r} as {self.name}')
        if v.ek is None:
            v.ek = self.elem
            v.dom = z3.K(self.elem.sort(), z3.BoolVal(False))
        return v.dom


class KDict(Kind):
    def __init__(self, key, val, default=None):
        self.key, self.val = key, val
        self.name = f'Dict_{key.name}_{val.name}'
        self.default = default     # collections.defaultdict: python constant produced for a missing key (e.g. b'')

    def sort(self):
        return _dt(self.name, [('mk_' + self.name,
                                [('map_' + self.name, z3.ArraySort(self.key.sort(), self.val.sort())),
                                 ('dom_' + self.name, z3.ArraySort(self.key.sort(), z3.BoolSort()))])])

    def _dflt(self, d):
        if isinstance(self.default, Kind):
            # defaultdict(set) / defaultdict(list): a fresh EMPTY container of the declared kind
            def mk(ip_, k=self.default):
                if isinstance(k, KSet):
                    return VSet(empty_array(KBool) if False else z3.K(k.elem.sort(), z3.BoolVal(False)), k.elem)
                if isinstance(k, KList):
                    return VList(empty_array(k.elem), z3.IntVal(0), k.elem)
                raise TypeError('default factory of this kind is not modelled')
            d.default = mk
        elif self.default is not None:
            d.default = lambda ip_, py=self.default: VConst(py)
        return d

    def wrap(self, term, ip=None):
        s = self.sort()
        return self._dflt(VDict(s.accessor(0, 0)(term), s.accessor(0, 1)(term), self.key, self.val))

    def unwrap(self, v):
        if not isinstance(v, VDict):
            raise TypeError(f'cannot store {v!r} as {self.name}')
        v.ensure_kinds(self.key, self.val)
        return self.sort().constructor(0)(v.map, v.dom)

    def fresh(self, ip, hint='d'):
        m = z3.Const(ip.fresh_name(hint + '_m'), z3.ArraySort(self.key.sort(), self.val.sort()))
        d = z3.Const(ip.fresh_name(hint + '_d'), z3.ArraySort(self.key.sort(), z3.BoolSort()))
        return self._dflt(VDict(m, d, self.key, self.val))


class KTuple(Kind):
    def __init__(self, *elems, fields=None, tname=None):
        self.elems = tuple(elems)
        self.fields = fields          # namedtuple field names, or None
        self.name = tname or ('Tup_' + '_'.join(e.name for e in elems))

    def sort(self):
        return _dt(self.name, [('mk_' + self.name,
                                [(f'f{i}_{self.name}', e.sort()) for i, e in enumerate(self.elems)])])

    def wrap(self, term, ip=None):
        s = self.sort()
        items = tuple(e.wrap(z3.simplify(s.accessor(0, i)(term)) if False else s.accessor(0, i)(term), ip)
                      for i, e in enumerate(self.elems))
        return VTuple(items, self)

    def unwrap(self, v):
        if not isinstance(v, VTuple) or len(v.items) != len(self.elems):
            raise TypeError(f'cannot store {v!r} as {self.name}')
        return self.sort().constructor(0)(*[e.unwrap(x) for e, x in zip(self.elems, v.items)])

    def fresh(self, ip, hint='t'):
        return VTuple(tuple(e.fresh(ip, f'{hint}_{i}') for i, e in enumerate(self.elems)), self)


class KOpt(Kind):
    '''None or a value of kind `inner`; resolved to one of the two by path splitting as
    soon as a value of this kind is produced.'''

    def __init__(self, inner):
        self.inner = inner
        self.name = f'Opt_{inner.name}'

    def sort(self):
        return _dt(self.name, [('none_' + self.name, []),
                               ('some_' + self.name, [('val_' + self.name, self.inner.sort())])])

    def wrap(self, term, ip=None):
        s = self.sort()
        if ip is None or ip.spec_mode:
            return VOptTerm(term, self)
        if ip.branch(s.recognizer(0)(term)):
            return VConst(None)
        return self.inner.wrap(s.accessor(1, 0)(term), ip)

    def unwrap(self, v):
        s = self.sort()
        if isinstance(v, VOptTerm):
            return v.t
        if isinstance(v, VConst) and v.py is None:
            return s.constructor(0)()
        return s.constructor(1)(self.inner.unwrap(v))

    def fresh(self, ip, hint='o'):
        # resolved lazily (path split at first use)
        t = z3.Const(ip.fresh_name(hint), self.sort())
        return VOptTerm(t, self)


class KExcOr(Kind):
    '''Either a value of kind `inner` or an exception object of class `exc` (values of caches that
    remember failures).  Resolved by a path split when read.'''

    def __init__(self, inner, exc):
        self.inner, self.exc = inner, exc
        self.name = f'ExcOr_{inner.name}_{exc}'

    def sort(self):
        return _dt(self.name, [('ok_' + self.name, [('okv_' + self.name, self.inner.sort())]),
                               ('err_' + self.name, [])])

    def wrap(self, term, ip=None):
        s = self.sort()
        if ip is None or ip.mode != 'code':
            return VExcOrTerm(term, self)
        if ip.branch(s.recognizer(1)(term)):
            return VExc(self.exc, ())
        return self.inner.wrap(s.accessor(0, 0)(term), ip)

    def unwrap(self, v):
        s = self.sort()
        if isinstance(v, VExcOrTerm):
            return v.t
        if isinstance(v, VExc):
            return s.constructor(1)()
        return s.constructor(0)(self.inner.unwrap(v))


class KObj(Kind):
    '''A reference to a heap object of a class under contract (not storable in SMT
    containers; created by the class description in the sidecar).'''

    def __init__(self, cls):
        self.cls = cls
        self.name = f'Obj_{cls}'

    def fresh(self, ip, hint='o'):
        return ip.new_object(self.cls, hint)


class KKindSpecFun(Kind):
    '''A function-valued field/parameter that denotes the named specification function
    (e.g. Merkle.hash_func = H, uninterpreted).'''

    def __init__(self, fname):
        self.fname = fname
        self.name = 'SpecFun_' + fname

    def fresh(self, ip, hint='f'):
        return VFunc('spec', self.fname)


class KRecord(Kind):
    '''A dictionary with a fixed set of constant keys (JSON-like result objects).'''

    def __init__(self, **fields):
        self.fields = fields
        self.name = 'Rec_' + '_'.join(fields)

    def fresh(self, ip, hint='rec'):
        d = VDict(None, None, None, None)
        d.rec = {k: kind.fresh(ip, f'{hint}.{k}') for k, kind in self.fields.items()}
        return d


class KConst(Kind):
    '''A parameter that always has the given concrete Python value.'''

    def __init__(self, py):
        self.py = py
        self.name = f'Const_{py!r}'

    def fresh(self, ip, hint='c'):
        def conv(x):
            if isinstance(x, tuple):
                return VTuple(tuple(conv(y) for y in x))
            return VConst(x)
        return conv(self.py)


class KOneOf(Kind):
    '''A parameter that is of one of several kinds (path split at creation).'''

    def __init__(self, *alts):
        self.alts = alts
        self.name = 'OneOf_' + '_'.join(a.name for a in alts)

    def fresh(self, ip, hint='x'):
        return self.alts[ip.choose(len(self.alts), tuple(a.name for a in self.alts))].fresh(ip, hint)


# ---------------------------------------------------------------------------------------------
# values


class Value:
    kind = None


class VConst(Value):
    '''A concrete Python constant: None, bool, int, float, str, bytes.'''
    __slots__ = ('py',)

    def __init__(self, py):
        self.py = py

    def __repr__(self):
        return f'VConst({self.py!r})'


class VInt(Value):
    kind = KInt
    __slots__ = ('t',)

    def __init__(self, t):
        self.t = t

    def __repr__(self):
        return f'VInt({self.t})'


class VBool(Value):
    kind = KBool
    __slots__ = ('t',)

    def __init__(self, t):
        self.t = t

    def __repr__(self):
        return f'VBool({self.t})'


class VReal(Value):
    kind = KReal
    __slots__ = ('t',)

    def __init__(self, t):
        self.t = t

    def __repr__(self):
        return f'VReal({self.t})'


class VU(Value):
    __slots__ = ('t', 'kind')

    def __init__(self, t, kind):
        self.t, self.kind = t, kind

    def __repr__(self):
        return f'VU({self.t}:{self.kind.name})'


class VExcOrTerm(Value):
    def __init__(self, t, kind):
        self.t, self.kind = t, kind


class VOptTerm(Value):
    '''An optional that has not been looked at yet (resolved by a path split at first use).'''
    __slots__ = ('t', 'kind', 'res')

    def __init__(self, t, kind):
        self.t, self.kind = t, kind
        self.res = None


class VTuple(Value):
    '''Immutable; concrete length.'''

    def __init__(self, items, kind=None):
        self.items = tuple(items)
        self._kind = kind

    @property
    def kind(self):
        if self._kind is None:
            self._kind = KTuple(*[kind_of(x) for x in self.items])
        return self._kind

    def __repr__(self):
        return f'VTuple{self.items!r}'


class _Linked:
    '''Mutable container that may be a view on a slot of a parent container or object
    field: mutations are written back (d[k].add(x), self.cache[k].append(y)).'''
    parent = None

    def _writeback(self):
        if self.parent is not None:
            self.parent(self)


class VList(Value, _Linked):
    def __init__(self, arr, n, ek):
        self.arr, self.n, self.ek = arr, n, ek
        self.ghost = {}       # ghost facts, e.g. 'enum_of': set term this list enumerates

    @property
    def kind(self):
        return KList(self.ek) if self.ek is not None else None

    def __repr__(self):
        return f'VList(n={self.n}, ek={self.ek})'


class VSet(Value, _Linked):
    def __init__(self, dom, ek):
        self.dom, self.ek = dom, ek

    @property
    def kind(self):
        return KSet(self.ek) if self.ek is not None else None

    def __repr__(self):
        return f'VSet({self.ek})'


class VDict(Value, _Linked):
    def __init__(self, m, dom, kk, vk, default=None):
        self.map, self.dom, self.kk, self.vk = m, dom, kk, vk
        self.default = default    # for defaultdict: a callable producing a Value
        self.rec = None           # record mode: {constant key: Value} (JSON-like result dictionaries)

    def ensure_kinds(self, kk, vk):
        if self.kk is None:
            self.kk, self.vk = kk, vk
            self.map = z3.K(kk.sort(), default_term(vk))
            self.dom = z3.K(kk.sort(), z3.BoolVal(False))

    @property
    def kind(self):
        return KDict(self.kk, self.vk) if self.kk is not None else None

    def __repr__(self):
        return f'VDict({self.kk}->{self.vk})'


class VObj(Value):
    def __init__(self, cls, fields=None, ident=None):
        self.cls = cls
        self.fields = fields if fields is not None else {}
        self.ident = ident

    @property
    def kind(self):
        return KObj(self.cls)

    def __repr__(self):
        return f'VObj({self.cls}#{self.ident})'


class VExc(Value):
    def __init__(self, typ, args=(), cause=None):
        self.typ, self.args, self.cause = typ, tuple(args), cause

    def __repr__(self):
        return f'VExc({self.typ})'


class VFunc(Value):
    '''A callable: kind in {'repo', 'builtin', 'bound', 'class', 'spec', 'exc'}'''

    def __init__(self, fkind, name, target=None, self_val=None):
        self.fkind, self.name, self.target, self.self_val = fkind, name, target, self_val

    def __repr__(self):
        return f'VFunc({self.fkind}:{self.name})'


class VModule(Value):
    def __init__(self, name):
        self.name = name

    def __repr__(self):
        return f'VModule({self.name})'


class VClass(Value):
    '''A class object: builtin type (int, str, list, ...), exception class, repo class.'''

    def __init__(self, name, ckind='builtin'):
        self.name, self.ckind = name, ckind

    def __repr__(self):
        return f'VClass({self.name})'


# ---------------------------------------------------------------------------------------------
# coercions


def int_term(v):
    if isinstance(v, VInt):
        return v.t
    if isinstance(v, VConst) and isinstance(v.py, (int, bool)):
        return z3.IntVal(int(v.py))
    if isinstance(v, VBool):
        return z3.If(v.t, z3.IntVal(1), z3.IntVal(0))
    raise TypeError(f'not an int: {v!r}')


def real_term(v):
    if isinstance(v, VReal):
        return v.t
    if isinstance(v, VConst) and isinstance(v.py, (int, bool)):
        return z3.RealVal(int(v.py))
    if isinstance(v, VConst) and isinstance(v.py, float):
        return z3.RealVal(repr(v.py))
    if isinstance(v, (VInt, VBool)):
        return z3.ToReal(int_term(v))
    raise TypeError(f'not a real: {v!r}')


def bool_term(v):
    if isinstance(v, VBool):
        return v.t
    if isinstance(v, VConst) and isinstance(v.py, bool):
        return z3.BoolVal(v.py)
    raise TypeError(f'not a bool: {v!r}')


def is_intlike(v):
    return isinstance(v, (VInt, VBool)) or (isinstance(v, VConst) and isinstance(v.py, (int, bool)))


def is_reallike(v):
    return isinstance(v, VReal) or (isinstance(v, VConst) and isinstance(v.py, float))


def kind_of(v):
    if isinstance(v, VConst):
        if isinstance(v.py, bool):
            return KBool
        if isinstance(v.py, int):
            return KInt
        if isinstance(v.py, float):
            return KReal
        if isinstance(v.py, str):
            from .builtins import KStr
            return KStr
        if isinstance(v.py, (bytes, bytearray)):
            from .builtins import KBytes
            return KBytes
        raise TypeError(f'no kind for constant {v.py!r}')
    k = v.kind
    if k is None:
        raise TypeError(f'no kind for {v!r}')
    return k


def default_term(kind):
    '''Some fixed term of the kind (content of unused array cells).'''
    return z3.Const(f'dflt_{kind.name}', kind.sort())


def tuple_to_list(v, ek=None):
    items = v.items
    if ek is None:
        ek = kind_of(items[0]) if items else None
    if ek is None:
        return VList(None, z3.IntVal(0), None)
    arr = empty_array(ek)
    for i, x in enumerate(items):
        arr = z3.Store(arr, i, ek.unwrap(x))
    return VList(arr, z3.IntVal(len(items)), ek)


# exception hierarchy (builtin + the repository's and aiorpcx's classes used in contracts)
EXC_PARENT = {
    'BaseException': None,
    'Exception': 'BaseException',
    'CancelledError': 'BaseException',
    'ArithmeticError': 'Exception', 'OverflowError': 'ArithmeticError',
    'ZeroDivisionError': 'ArithmeticError',
    'AssertionError': 'Exception', 'AttributeError': 'Exception',
    'LookupError': 'Exception', 'IndexError': 'LookupError', 'KeyError': 'LookupError',
    'OSError': 'Exception', 'FileNotFoundError': 'OSError', 'ConnectionError': 'OSError',
    'TimeoutError': 'OSError',
    'RuntimeError': 'Exception', 'NotImplementedError': 'RuntimeError',
    'RecursionError': 'RuntimeError',
    'StopIteration': 'Exception',
    'TypeError': 'Exception',
    'ValueError': 'Exception', 'UnicodeError': 'ValueError',
    'UnicodeEncodeError': 'UnicodeError', 'UnicodeDecodeError': 'UnicodeError',
    'struct.error': 'Exception',
    'socket.gaierror': 'OSError',
    # aiorpcx
    'RPCError': 'Exception', 'ReplyAndDisconnect': 'Exception', 'ProtocolError': 'Exception',
    'TaskTimeout': 'Exception', 'ExcessiveSessionCostError': 'RuntimeError',
    'FinalRPCError': 'RPCError',
    # repository
    'ChainError': 'Exception', 'DBError': 'Exception', 'DBSyncError': 'Exception',
    'DaemonError': 'Exception', 'WarmingUpError': 'Exception', 'ServiceRefusedError': 'Exception',
    'Base58Error': 'Exception', 'BadPeerError': 'Exception',
    # aiohttp / asyncio classes caught by Daemon._send
    'asyncio.TimeoutError': 'Exception',
    'aiohttp.ClientError': 'Exception', 'aiohttp.ClientConnectionError': 'aiohttp.ClientError',
    'aiohttp.ServerDisconnectedError': 'aiohttp.ClientConnectionError',
    'aiohttp.ClientPayloadError': 'aiohttp.ClientError', 'aiohttp.ClientResponseError': 'aiohttp.ClientError',
    'ConnectionResetError': 'ConnectionError',
}


def exc_is_subclass(typ, parent):
    while typ is not None:
        if typ == parent:
            return True
        if typ not in EXC_PARENT:
            raise KeyError(f'unknown exception class {typ}')
        typ = EXC_PARENT[typ]
    return False


def empty_array(kind):
    '''The array of an empty list: cells at and beyond the length are never looked at, so any array will do - a
    named constant per element kind (constant arrays over non-value defaults are z3-only syntax).'''
    return z3.Const(f'emptyarr_{kind.name}', z3.ArraySort(z3.IntSort(), kind.sort()))
