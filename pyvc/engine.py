'''The symbolic executor: forward execution of the real function bodies (ast nodes extracted
from the working tree), one path per run.  Branches consult a decision vector; the driver
(`Verifier`) re-runs the function with the next vector until every feasible path has been
explored.  Loops are cut by sidecar invariants, calls are replaced by callee contracts.

Every proof obligation is checked with the SMT solver in the state where it arises
(path condition => goal) and recorded under a stable name.
'''
import ast
import copy
import time

import z3

from . import extract
from .dsl import parse_expr, parse_stmts, Contract
from .values import *   # noqa


class EngineError(Exception):
    '''Unsupported construct / contract that does not attach: exit 3, never a verdict.'''


class PathEnd(Exception):
    pass


class ReturnEx(Exception):
    def __init__(self, value):
        self.value = value


class BreakEx(Exception):
    pass


class ContinueEx(Exception):
    pass


class PyRaise(Exception):
    def __init__(self, exc, node=None):
        self.exc = exc
        self.node = node


class Frame:
    def __init__(self, modinfo, fkey, env=None, parent=None, contract=None):
        self.mod = modinfo
        self.fkey = fkey
        self.env = env if env is not None else {}
        self.parent = parent          # enclosing frame for closures
        self.contract = contract
        self.old = None               # snapshot env for old()
        self.cur_exc = None
        self.yielded = None           # generator output (VList) when executing a generator body
        self.declared_nonlocal = set()

    def lookup(self, name):
        f = self
        while f is not None:
            if name in f.env:
                return f.env[name]
            f = f.parent
        raise KeyError(name)

    def has(self, name):
        f = self
        while f is not None:
            if name in f.env:
                return True
            f = f.parent
        return False


class Obligation:
    def __init__(self, name, status, props, seconds, backend, detail=None, model=None, where=None,
                 size=0):
        self.name, self.status, self.props = name, status, props
        self.seconds, self.backend, self.detail, self.model = seconds, backend, detail, model
        self.where = where
        self.size = size
        self.inputs = None
        self.path = ''

    def as_dict(self):
        return dict(name=self.name, status=self.status, props=self.props, seconds=round(self.seconds, 4),
                    backend=self.backend, detail=self.detail, where=self.where,
                    size=self.size, inputs=self.inputs, path=self.path)


class Interp:
    def __init__(self, verifier, decisions):
        self.V = verifier
        self.repo = verifier.repo
        self.reg = verifier.reg
        self.decisions = list(decisions)
        self.arity = [None] * len(self.decisions)
        self.labels = [None] * len(self.decisions)
        self.pos = 0
        self.solver = z3.Solver()
        self.solver.set('timeout', verifier.feas_timeout_ms)
        if verifier.feas_no_mbqi:
            self.solver.set('smt.mbqi', False)
        self.pc = []
        self.counter = 0
        self.mode = 'code'        # 'code' | 'spec' | 'quant'
        self.qcount = 0
        self.oseq = 0
        self.results = []
        self.obj_count = 0
        self.mutlog = None
        self.cur_props = ()
        self.cur_fn = ''
        self.spec_frames = []
        self.pow2_seen = set()
        self.assumed = set()
        self.trace = []
        self.glob_cache = {}
        self.quant_collect = None
        self.after_await = None
        # the literal [] seen as a JSON value: the JSON list with identity -1, of length 0
        self.assume(z3.Function('jlist_len', z3.IntSort(), z3.IntSort())(z3.IntVal(-1)) == 0)

    # -- path control --------------------------------------------------------------------
    @property
    def spec_mode(self):
        return self.mode == 'spec'

    def fresh_name(self, hint='v'):
        self.counter += 1
        return f'{hint}!{self.counter}'

    def assume(self, t):
        if isinstance(t, bool):
            t = z3.BoolVal(t)
        if z3.is_true(t):
            return
        self.solver.add(t)
        self.pc.append(t)

    def choose(self, n, labels=None):
        if self.V.probe_depth is not None and self.pos >= self.V.probe_depth:
            raise PathEnd()          # prefix enumeration for sharding: stop at the depth limit
        if self.pos < len(self.decisions):
            d = self.decisions[self.pos]
            self.arity[self.pos] = n
        else:
            d = 0
            self.decisions.append(0)
            self.arity.append(n)
            self.labels.append(None)
        self.labels[self.pos] = labels[d] if labels else str(d)
        self.pos += 1
        return d

    def feasible(self, extra=None):
        key = (tuple(self.decisions[:self.pos]), self.qcount)
        self.qcount += 1
        cache = self.V.feas_cache
        if key in cache:
            return cache[key]
        t0 = time.time()
        r = self.solver.check(*([extra] if extra is not None else []))
        self.V.feas_seconds += time.time() - t0
        ok = (r != z3.unsat)
        cache[key] = ok
        return ok

    def branch(self, cond):
        '''Split the path on a boolean term; returns the side taken.'''
        if isinstance(cond, bool):
            return cond
        cond = z3.simplify(cond)
        if z3.is_true(cond):
            return True
        if z3.is_false(cond):
            return False
        if self.mode != 'code':
            raise EngineError('path split requested in specification mode')
        t_ok = self.feasible(cond)
        f_ok = self.feasible(z3.Not(cond)) if t_ok else True
        if t_ok and f_ok:
            take = self.choose(2, ('T', 'F')) == 0
        elif t_ok:
            take = True
        elif f_ok:
            take = False
        else:
            raise PathEnd()
        self.assume(cond if take else z3.Not(cond))
        return take

    def raise_if(self, cond, typ, node):
        '''The operation at `node` raises `typ` exactly when `cond` holds.  In code mode the path is
        split; while evaluating a comprehension element for an arbitrary index (mode 'quant') the
        condition is recorded and the comprehension as a whole raises or completes.'''
        if isinstance(cond, bool):
            if cond:
                raise PyRaise(VExc(typ), node)
            return
        cond = z3.simplify(cond)
        if z3.is_false(cond):
            return
        if self.mode == 'code':
            if self.branch(cond):
                raise PyRaise(VExc(typ), node)
            return
        if self.mode == 'quant':
            self.quant_collect.append((typ, cond))
            self.assume(z3.Not(cond))
            return
        # specification mode: total semantics

    def end_if_infeasible(self):
        if not self.feasible():
            raise PathEnd()

    # -- obligations -----------------------------------------------------------------------
    def prove(self, name, goal, where=None, props=None, kf=None):
        '''Check pc => goal, record the result, then continue under the goal.'''
        if isinstance(goal, bool):
            goal = z3.BoolVal(goal)
        props = list(props if props is not None else self.cur_props)
        key = (name, tuple(self.decisions[:self.pos]), self.oseq)
        self.oseq += 1
        if self.V.probe_depth is not None:
            self.assume(goal)
            return
        if key not in self.V.done:
            self.V.done.add(key)
            sg = z3.simplify(goal)
            if z3.is_true(sg):
                res = Obligation(name, 'proved', props, 0.0, 'simplifier', where=where)
            else:
                res = self.V.discharge(name, list(self.pc), goal, props, where,
                                       timeout_ms=3000 if kf else None)
                res.path = '/'.join(x or '?' for x in self.labels[:self.pos])
                if res.model is not None:
                    from .verifier import model_value
                    m, res.model = res.model, None
                    try:
                        res.inputs = {k: model_value(m, v) for k, v in getattr(self, 'entry_env', {}).items()}
                    except Exception as ex:   # noqa
                        res.inputs = {'<model rendering failed>': repr(ex)}
            res.kf = kf
            res.dkey = repr(key)
            self.results.append(res)
        self.assume(goal)

    def fail(self, name, detail, where=None, props=None):
        '''An obligation that is false on this (feasible) path: e.g. an exception class that
        may not escape.  The path condition's model is the counterexample.'''
        self.prove(name, z3.BoolVal(False), where=where, props=props)
        raise PathEnd()

    # -- objects ---------------------------------------------------------------------------
    def new_object(self, cls, hint='o', assume_inv=True):
        spec = self.reg.classes.get(cls)
        if spec is None:
            raise EngineError(f'no class description for {cls}')
        self.obj_count += 1
        o = VObj(cls, {}, ident=self.obj_count)
        for fname, k in list(spec.fields.items()) + list(spec.ghost.items()):
            o.fields[fname] = k.fresh(self, f'{hint}.{fname}')
        for fname, py in spec.consts.items():
            o.fields[fname] = py if isinstance(py, Value) else VConst(py)
        if assume_inv:
            for lab, inv in spec.inv:
                self.assume(self.spec_bool(inv, {'self': o}))
        return o

    # -- specification-mode evaluation ----------------------------------------------------
    def spec_eval(self, src, env, old_env=None):
        node = parse_expr(src) if isinstance(src, str) else src
        fr = Frame(None, '<spec>', dict(env))
        fr.old = old_env
        saved = self.mode
        self.mode = 'spec'
        try:
            return self.eval(node, fr)
        finally:
            self.mode = saved

    def spec_bool(self, src, env, old_env=None):
        v = self.spec_eval(src, env, old_env)
        t = self.truth(v)
        return z3.BoolVal(t) if isinstance(t, bool) else t

    def ghost_exec(self, stmts_src, fr):
        '''Execute ghost statements (strings) in the given frame, in spec mode.'''
        saved = self.mode
        self.mode = 'spec'
        try:
            for src in stmts_src:
                for st in parse_stmts(src):
                    self.exec_stmt(st, fr)
        finally:
            self.mode = saved

    # -- snapshot for old() ----------------------------------------------------------------
    def snapshot(self, env):
        memo = {}
        return {k: self._clone(v, memo) for k, v in env.items()}

    def _clone(self, v, memo):
        i = id(v)
        if i in memo:
            return memo[i]
        if isinstance(v, VList):
            if getattr(v, '_arr', 0) is None:
                c = v          # lazy enumeration that nobody has looked at yet
            else:
                c = VList(v.arr, v.n, v.ek)
                c.ghost = dict(v.ghost)
        elif isinstance(v, VSet):
            c = VSet(v.dom, v.ek)
        elif isinstance(v, VDict):
            c = VDict(v.map, v.dom, v.kk, v.vk, v.default)
            if v.rec is not None:
                c.rec = {k: self._clone(x, memo) for k, x in v.rec.items()}
        elif isinstance(v, VObj):
            c = VObj(v.cls, {}, v.ident)
            memo[i] = c
            for k, x in v.fields.items():
                c.fields[k] = self._clone(x, memo)
            return c
        elif isinstance(v, VTuple):
            c = VTuple(tuple(self._clone(x, memo) for x in v.items), v._kind)
        else:
            c = v
        memo[i] = c
        return c

    # =====================================================================================
    # statements
    # =====================================================================================
    def exec_block(self, stmts, fr):
        for s in stmts:
            self.exec_stmt(s, fr)

    def exec_stmt(self, s, fr):
        m = getattr(self, 'st_' + type(s).__name__, None)
        if m is None:
            raise EngineError(f'unsupported statement {type(s).__name__} at line {getattr(s, "lineno", "?")}')
        self.run_ghost_hooks(fr, 'before', s)
        m(s, fr)
        self.run_ghost_hooks(fr, 'after', s)

    def run_ghost_hooks(self, fr, when, s):
        c = fr.contract
        if c is None or not c.ghost or self.mode != 'code':
            return
        if isinstance(s, (ast.For, ast.While, ast.If, ast.Try, ast.With, ast.AsyncWith, ast.AsyncFor,
                          ast.FunctionDef, ast.AsyncFunctionDef)):
            return
        try:
            fp = ast.unparse(s)
        except Exception:
            return
        g = c.ghost.get((when, fp))
        if g is None:
            # wildcard hooks: ('before', 'branch.append(*)') attach to every statement of that shape,
            # whatever its argument - the ghost update must not depend on the code it monitors
            import fnmatch
            for hk, gg in c.ghost.items():
                if not isinstance(hk, tuple):
                    continue
                w, pat = hk
                if w == when and isinstance(pat, str) and '*' in pat and fnmatch.fnmatchcase(fp, pat):
                    g = gg
                    break
        if g is not None:
            self.V.ghost_hits.add((c.key, when, fp))
        if g:
            self.ghost_exec(g, fr)

    def st_Pass(self, s, fr):
        pass

    def st_Expr(self, s, fr):
        if isinstance(s.value, ast.Constant):
            return
        if extract.is_logger_call(s.value):
            # dropped (DESIGN 2.1 item 2): argument sub-expressions are not evaluated; their
            # formatting is assumed total
            self.V.dropped.add('logger call')
            return
        self.eval(s.value, fr)

    def st_Assign(self, s, fr):
        v = self.eval(s.value, fr)
        for t in s.targets:
            self.assign(t, v, fr)

    def st_AnnAssign(self, s, fr):
        if s.value is not None:
            self.assign(s.target, self.eval(s.value, fr), fr)

    def st_AugAssign(self, s, fr):
        t = s.target
        if isinstance(t, ast.Name):
            cur = self.eval(ast.Name(id=t.id, ctx=ast.Load()), fr)
            rhs = self.eval(s.value, fr)
            cur_r = self.resolve(cur)
            if isinstance(cur_r, (VList, VSet, VDict)) and isinstance(s.op, (ast.Add, ast.BitOr)):
                self.inplace_extend(cur_r, rhs, s)
                return
            self.assign(t, self.binop(s.op, cur, rhs, s), fr)
        elif isinstance(t, ast.Attribute):
            obj = self.eval(t.value, fr)
            cur = self.get_attr(obj, t.attr, t, fr)
            rhs = self.eval(s.value, fr)
            cur_r = self.resolve(cur)
            if isinstance(cur_r, (VList, VSet, VDict)) and isinstance(s.op, (ast.Add, ast.BitOr)):
                self.inplace_extend(cur_r, rhs, s)
                return
            self.set_attr(obj, t.attr, self.binop(s.op, cur, rhs, s), t)
        elif isinstance(t, ast.Subscript):
            obj = self.eval(t.value, fr)
            idx = self.eval_index(t.slice, fr)
            cur = self.get_item(obj, idx, t)
            rhs = self.eval(s.value, fr)
            self.set_item(obj, idx, self.binop(s.op, cur, rhs, s), t)
        else:
            raise EngineError('unsupported augmented assignment target')

    def st_Return(self, s, fr):
        raise ReturnEx(self.eval(s.value, fr) if s.value is not None else VConst(None))

    def st_If(self, s, fr):
        if self.branch_on(s.test, fr):
            self.exec_block(s.body, fr)
        else:
            self.exec_block(s.orelse, fr)

    def st_Break(self, s, fr):
        raise BreakEx()

    def st_Continue(self, s, fr):
        raise ContinueEx()

    def st_Assert(self, s, fr):
        if self.mode == 'spec':
            return
        key = (fr.contract.key if fr.contract else fr.fkey)
        if self.V.asserts_as_obligations(fr):
            t = self.truth(self.eval(s.test, fr))
            self.prove(f'{self.fn_label(fr)}.assert@{self.stmt_tag(s)}', t if not isinstance(t, bool) else z3.BoolVal(t),
                       where=self.where(s, fr))
            return
        if not self.branch_on(s.test, fr):
            raise PyRaise(VExc('AssertionError'), s)

    def st_Raise(self, s, fr):
        if s.exc is None:
            if fr.cur_exc is None:
                raise EngineError('bare raise outside handler')
            raise PyRaise(fr.cur_exc, s)
        v = self.eval(s.exc, fr)
        if isinstance(v, VClass) and v.ckind == 'exc':
            v = VExc(v.name)
        if not isinstance(v, VExc):
            raise EngineError(f'raise of non-exception {v!r}')
        raise PyRaise(v, s)

    def st_Delete(self, s, fr):
        for t in s.targets:
            if isinstance(t, ast.Subscript):
                obj = self.eval(t.value, fr)
                idx = self.eval_index(t.slice, fr)
                self.del_item(obj, idx, t)
            elif isinstance(t, ast.Name):
                fr.env.pop(t.id, None)
            else:
                raise EngineError('unsupported del target')

    def st_Global(self, s, fr):
        raise EngineError('global statement')

    def st_Nonlocal(self, s, fr):
        fr.declared_nonlocal.update(s.names)

    def st_FunctionDef(self, s, fr):
        fr.env[s.name] = VFunc('closure', s.name, target=(s, fr))

    st_AsyncFunctionDef = st_FunctionDef

    def st_Try(self, s, fr):
        try:
            try:
                self.exec_block(s.body, fr)
            except PyRaise as e:
                handled = False
                for h in s.handlers:
                    if self.handler_matches(h, e.exc, fr):
                        handled = True
                        if h.name:
                            fr.env[h.name] = e.exc
                        saved = fr.cur_exc
                        fr.cur_exc = e.exc
                        try:
                            self.exec_block(h.body, fr)
                        finally:
                            fr.cur_exc = saved
                        break
                if not handled:
                    raise
            else:
                self.exec_block(s.orelse, fr)
        except (PyRaise, ReturnEx, BreakEx, ContinueEx):
            if s.finalbody:
                self.exec_block(s.finalbody, fr)
            raise
        else:
            if s.finalbody:
                self.exec_block(s.finalbody, fr)

    def handler_matches(self, h, exc, fr):
        if h.type is None:
            return True
        tv = self.eval(h.type, fr)
        types = tv.items if isinstance(tv, VTuple) else (tv,)
        for t in types:
            if not isinstance(t, VClass) or t.ckind != 'exc':
                raise EngineError(f'except clause with non-exception class {t!r}')
            if exc_is_subclass(exc.typ, t.name):
                return True
        return False

    def st_With(self, s, fr):
        # context managers: the managers in the code under contract either have contracts
        # (ctx:<name>) or are transparent (lock, open file handled by builtins)
        entered = []
        for item in s.items:
            cm = self.eval(item.context_expr, fr)
            val = self.cm_enter(cm, item, fr)
            entered.append(cm)
            if item.optional_vars is not None:
                self.assign(item.optional_vars, val, fr)
        try:
            self.exec_block(s.body, fr)
        except PyRaise as e:
            for cm in reversed(entered):
                self.cm_exit(cm, e.exc, fr, s)
            raise
        except (ReturnEx, BreakEx, ContinueEx):
            for cm in reversed(entered):
                self.cm_exit(cm, None, fr, s)
            raise
        else:
            for cm in reversed(entered):
                self.cm_exit(cm, None, fr, s)

    st_AsyncWith = st_With

    def cm_enter(self, cm, item, fr):
        from . import builtins as B
        return B.cm_enter(self, cm, item, fr)

    def cm_exit(self, cm, exc, fr, node):
        from . import builtins as B
        return B.cm_exit(self, cm, exc, fr, node)

    # -- loops -------------------------------------------------------------------------
    def loop_spec(self, s, fr):
        c = fr.contract
        if c is None:
            return None, None
        mod, fnode = self.V.fnode_of(fr)
        loops = extract.loops_of(fnode)
        try:
            k = loops.index(s)
        except ValueError:
            return None, None
        ls = c.loops.get(k)
        fp = extract.loop_fingerprint(s)
        if ls is None or ls.fingerprint != fp:
            # loops moved relative to each other: attach by header text when that is unambiguous
            same = [x for x in c.loops.values() if x.fingerprint == fp]
            if len(same) == 1 and sum(1 for l in loops if extract.loop_fingerprint(l) == fp) == 1:
                ls = same[0]
        if ls is not None:
            if ls.fingerprint != fp:
                raise EngineError(f'{c.key}: loop {k} fingerprint changed: contract has '
                                  f'{ls.fingerprint!r}, source has {fp!r}')
        return k, ls

    def st_While(self, s, fr):
        k, ls = self.loop_spec(s, fr)
        if ls is None:
            raise EngineError(f'{fr.fkey}: while loop at line {s.lineno} has no invariant')
        self.run_cut_loop(s, fr, k, ls, kind='while')

    def st_For(self, s, fr):
        k, ls = self.loop_spec(s, fr)
        it = self.resolve(self.eval(s.iter, fr))
        if ls is None or ls.unroll:
            items = self.concrete_items(it)
            if items is None:
                raise EngineError(f'{fr.fkey}: for loop at line {s.lineno} '
                                  f'({extract.loop_fingerprint(s)}) has no invariant')
            try:
                for x in items:
                    self.assign(s.target, x, fr)
                    try:
                        self.exec_block(s.body, fr)
                    except ContinueEx:
                        continue
                else:
                    self.exec_block(s.orelse, fr)
            except BreakEx:
                pass
            return
        self.run_cut_loop(s, fr, k, ls, kind='for', it=it)

    st_AsyncFor = st_For

    def concrete_items(self, it):
        if isinstance(it, VTuple):
            return list(it.items)
        if isinstance(it, VRange):
            if all(isinstance(x, VConst) for x in (it.start, it.stop, it.step)):
                r = range(it.start.py, it.stop.py, it.step.py)
                if len(r) <= 64:
                    return [VConst(i) for i in r]
            return None
        if isinstance(it, VList) and 'enum_of' in it.ghost:
            return None
        if isinstance(it, VList) and z3.is_int_value(z3.simplify(it.n)) and it.ek is not None:
            n = z3.simplify(it.n).as_long()
            if n <= 64:
                return [it.ek.wrap(z3.simplify(z3.Select(it.arr, i)), self) for i in range(n)]
        if isinstance(it, VList) and it.ek is None:
            return []
        if isinstance(it, VConst) and isinstance(it.py, (bytes, str, tuple)):
            return [VConst(x) for x in it.py]
        return None

    def run_cut_loop(self, s, fr, k, ls, kind, it=None):
        label = f'{self.fn_label(fr)}.loop{k}'
        where = self.where(s, fr)
        env = fr.env
        # iteration scheme
        scheme = None
        if kind == 'for':
            if isinstance(it, VRange):
                scheme = 'range'
            elif isinstance(it, VList) and 'enum_of' in it.ghost:
                scheme = 'set'
                src_set = it.ghost['enum_of']
                ek = it.ek
            elif isinstance(it, VSet):
                scheme = 'set'
                src_set, ek = it.dom, it.ek
            elif isinstance(it, VDict):
                scheme = 'set'
                src_set, ek = it.dom, it.kk
            elif isinstance(it, VDictItems):
                scheme = 'set'
                src_set, ek = it.d.dom, it.d.kk
            elif isinstance(it, VList) or isinstance(it, VTuple):
                if isinstance(it, VTuple):
                    it = tuple_to_list(it)
                scheme = 'list'
            else:
                raise EngineError(f'{fr.fkey}: cannot iterate over {it!r} at line {s.lineno}')
            # snapshot the iterable (Python iterates the object; mutation during iteration of
            # the *same* object is not supported)
            if scheme == 'list':
                it_arr, it_n, it_ek = it.arr, it.n, it.ek
                env['_it'] = VList(it_arr, it_n, it_ek)       # ghost name of the sequence being iterated
                env[f'_it{k}'] = env['_it']                   # ... by loop ordinal (nested loops)
            if scheme == 'set' and ek is None:
                return    # empty literal container: no iteration
        # ghost iteration state
        if kind == 'for':
            if scheme == 'set':
                env[ls.done] = VSet(z3.K(ek.sort(), z3.BoolVal(False)), ek)
            else:
                env[ls.index] = VConst(0)
        if ls.ghost_pre:
            self.ghost_exec(ls.ghost_pre, fr)
        # 1. invariant on entry
        self.check_invariants(ls, fr, f'{label}.inv-entry', where)
        # 2. havoc the frame
        self.havoc_loop_frame(s, fr, ls, kind, scheme)
        if kind == 'for':
            if scheme == 'set':
                d = VSet(z3.Const(self.fresh_name('done'), z3.ArraySort(ek.sort(), z3.BoolSort())), ek)
                env[ls.done] = d
                x = z3.Const(self.fresh_name('e'), ek.sort())
                self.assume(z3.ForAll([x], z3.Implies(z3.Select(d.dom, x), z3.Select(src_set, x)),
                                      patterns=[z3.Select(d.dom, x)]))
            else:
                i = z3.Int(self.fresh_name('i'))
                self.assume(i >= 0)
                env[ls.index] = VInt(i)
        # 3. assume the invariant
        for lab, inv in ls.invariants:
            self.assume(self.spec_bool(inv, self.spec_env(fr), fr.old))
        # 4. guard
        if kind == 'while':
            go = self.branch_on(s.test, fr)
        elif scheme == 'set':
            x = z3.Const(self.fresh_name('e'), ek.sort())
            more = z3.Exists([x], z3.And(z3.Select(src_set, x), z3.Not(z3.Select(d.dom, x))))
            go = self.branch(more)
            if go:
                cur = z3.Const(self.fresh_name('cur'), ek.sort())
                self.assume(z3.And(z3.Select(src_set, cur), z3.Not(z3.Select(d.dom, cur))))
                elem = ek.wrap(cur, self)
                if isinstance(it, VDictItems):
                    env['_key'] = elem
                    val = it.d.vk.wrap(z3.Select(it.d.map, cur), self)
                    if it.what == 'items':
                        elem = VTuple((elem, val))
                    elif it.what == 'values':
                        elem = val
            else:
                y = z3.Const(self.fresh_name('e'), ek.sort())
                self.assume(z3.ForAll([y], z3.Select(src_set, y) == z3.Select(d.dom, y),
                                      patterns=[z3.Select(d.dom, y)]))
        elif scheme == 'list':
            go = self.branch(i < it_n)
            if go:
                elem = it_ek.wrap(z3.Select(it_arr, i), self)
            else:
                self.assume(i == it_n)
        elif scheme == 'range':
            cnt = it.count_term()
            go = self.branch(i < cnt)
            if go:
                elem = KInt.wrap(z3.simplify(int_term(it.start) + i * int_term(it.step)))
            else:
                self.assume(i == cnt)
        if not go:
            if ls.ghost_exit:
                self.ghost_exec(ls.ghost_exit, fr)
            if s.orelse:
                self.exec_block(s.orelse, fr)
            return
        # 5. one arbitrary iteration
        pre_ids = self.reachable_ids(fr)
        if kind == 'for':
            self.assign(s.target, elem, fr)
        if ls.decreases:
            dec0 = int_term(self.spec_eval(ls.decreases, self.spec_env(fr), fr.old))
        saved_log = self.mutlog
        self.mutlog = (self.loop_havocked, pre_ids)
        try:
            if ls.ghost_begin:
                self.ghost_exec(ls.ghost_begin, fr)
            try:
                self.exec_block(s.body, fr)
            except ContinueEx:
                pass
            except BreakEx:
                self.mutlog = saved_log
                return
        finally:
            self.mutlog = saved_log
        if kind == 'for':
            if scheme == 'set':
                env[ls.done] = VSet(z3.Store(d.dom, cur, z3.BoolVal(True)), ek)
            else:
                env[ls.index] = VInt(i + 1)
        if ls.ghost_end:
            self.ghost_exec(ls.ghost_end, fr)
        self.check_invariants(ls, fr, f'{label}.inv-step', where)
        if ls.decreases:
            dec1 = int_term(self.spec_eval(ls.decreases, self.spec_env(fr), fr.old))
            self.prove(f'{label}.decreases', z3.And(dec0 >= 0, dec1 < dec0), where=where)
        raise PathEnd()

    def check_invariants(self, ls, fr, name, where):
        for lab, inv in ls.invariants:
            self.prove(f'{name}.{lab}', self.spec_bool(inv, self.spec_env(fr), fr.old), where=where)

    def spec_env(self, fr):
        env = {}
        chain = []
        f = fr
        while f is not None:
            chain.append(f)
            f = f.parent
        for f in reversed(chain):
            env.update(f.env)
        return env

    def havoc_loop_frame(self, s, fr, ls, kind, scheme):
        '''Havoc everything the loop body may modify: names assigned, containers mutated
        through method calls/subscript stores/del, object fields assigned, plus the
        contract's explicit `modifies`.  The body execution is then monitored (mutlog):
        a mutation of something not havocked is an engine error, so an incomplete frame can
        never make a proof go through silently.'''
        names, exprs = assigned_in(s.body + (s.orelse if False else []))
        if kind == 'for':
            tn, _ = assigned_in_target(s.target)
            names |= tn
        self.loop_havocked = set()
        hv = self.loop_havocked
        # in-place havoc of mutated containers / object fields
        for e in exprs:
            saved = self.mode
            self.mode = 'spec'
            try:
                try:
                    if isinstance(e, ast.Attribute):
                        base = self.eval(e.value, fr)
                        if isinstance(base, VObj):
                            self.havoc_field(base, e.attr, hv)
                            continue
                    v = self.eval(e, fr)
                finally:
                    self.mode = saved
            except (EngineError, KeyError):
                continue      # not live at the loop head (created inside the body)
            self.havoc_inplace(v, hv)
        for src in ls.modifies:
            node = parse_expr(src)
            if isinstance(node, ast.Attribute):
                obj = self.spec_eval(node.value, self.spec_env(fr))
                self.havoc_field(obj, node.attr, hv)
            else:
                v = self.spec_eval(node, self.spec_env(fr))
                if isinstance(node, ast.Name) and not isinstance(v, (VList, VSet, VDict)):
                    names.add(node.id)       # a scalar local changed through a closure (nonlocal)
                else:
                    self.havoc_inplace(v, hv)
        for n in sorted(names):
            k = ls.var_kinds.get(n) or (fr.contract.locals.get(n) if fr.contract else None)
            owner = fr
            while owner is not None and n not in owner.env:
                owner = owner.parent
            hv.add(('name', n))
            if owner is None:
                if k is None:
                    continue      # first assigned inside the loop: not live at the head
                owner = fr
            cur = owner.env.get(n)
            if k is not None:
                nv = k.fresh(self, n)
            else:
                nv = self.fresh_like(cur, n)
            owner.env[n] = nv
            hv.add(('name', n))
            self.note_havocked(nv, hv)

    def note_havocked(self, v, hv):
        if isinstance(v, (VList, VSet, VDict)):
            hv.add(id(v))
        elif isinstance(v, VTuple):
            for x in v.items:
                self.note_havocked(x, hv)

    def havoc_inplace(self, v, hv):
        if isinstance(v, VList):
            if v.ek is None:
                raise EngineError('cannot havoc a list of unknown element kind (declare it in locals=)')
            v.arr = z3.Const(self.fresh_name('hl_a'), z3.ArraySort(z3.IntSort(), v.ek.sort()))
            v.n = z3.Int(self.fresh_name('hl_n'))
            v.ghost = {}
            self.assume(v.n >= 0)
            v._writeback()
            hv.add(id(v))
        elif isinstance(v, VSet):
            if v.ek is None:
                raise EngineError('cannot havoc a set of unknown element kind (declare it in locals=)')
            v.dom = z3.Const(self.fresh_name('hs'), z3.ArraySort(v.ek.sort(), z3.BoolSort()))
            v._writeback()
            hv.add(id(v))
        elif isinstance(v, VDict):
            if v.kk is None:
                raise EngineError('cannot havoc a dict of unknown kinds (declare it in locals=)')
            v.map = z3.Const(self.fresh_name('hd_m'), z3.ArraySort(v.kk.sort(), v.vk.sort()))
            v.dom = z3.Const(self.fresh_name('hd_d'), z3.ArraySort(v.kk.sort(), z3.BoolSort()))
            v._writeback()
            hv.add(id(v))

    def havoc_field(self, obj, attr, hv=None):
        if not isinstance(obj, VObj):
            raise EngineError(f'modifies target is not an object field: {obj!r}.{attr}')
        cur = obj.fields.get(attr)
        if isinstance(cur, (VList, VSet, VDict)) and cur.kind is not None:
            self.havoc_inplace(cur, hv if hv is not None else set())
        else:
            spec = self.reg.classes.get(obj.cls)
            k = None
            if spec:
                k = spec.fields.get(attr) or spec.ghost.get(attr)
            if k is None:
                obj.fields[attr] = self.fresh_like(cur, attr)
            else:
                obj.fields[attr] = k.fresh(self, attr)
        if hv is not None:
            hv.add(('field', obj.ident, attr))

    def fresh_like(self, v, hint='h'):
        if v is None:
            raise EngineError(f'cannot havoc {hint}: no value and no declared kind')
        if isinstance(v, VJ):
            return VJ(z3.Const(self.fresh_name(hint), v.t.sort()))
        if isinstance(v, VConst):
            if isinstance(v.py, bool):
                return KBool.fresh(self, hint)
            if isinstance(v.py, int):
                return KInt.fresh(self, hint)
            if isinstance(v.py, float):
                return KReal.fresh(self, hint)
            if isinstance(v.py, bytes):
                from .builtins import KBytes
                return KBytes.fresh(self, hint)
            if isinstance(v.py, str):
                from .builtins import KStr
                return KStr.fresh(self, hint)
            raise EngineError(f'cannot havoc {hint} (= {v.py!r}): declare its kind in var_kinds/locals')
        if isinstance(v, VTuple):
            return VTuple(tuple(self.fresh_like(x, f'{hint}_{i}') for i, x in enumerate(v.items)), v._kind)
        if isinstance(v, (VObj, VFunc, VClass, VModule)):
            return v
        k = v.kind
        if k is None:
            raise EngineError(f'cannot havoc {hint}: empty container of unknown kind (declare it)')
        return k.fresh(self, hint)

    def touch(self, what):
        '''Write barrier: called on every mutation while a loop body is being executed.'''
        if self.mutlog is None or self.mode == 'spec':
            return
        hv, pre = self.mutlog
        if isinstance(what, tuple):
            if what not in hv:
                if what[0] == 'name':
                    raise EngineError(f'loop frame incomplete: variable {what[1]} assigned in the body '
                                      f'but not havocked')
                if what[0] == 'field' and ('obj', what[1]) not in pre:
                    return      # object created inside the body
                raise EngineError(f'loop frame incomplete: {what} modified in the body but not havocked '
                                  f'(add it to modifies=)')
        else:
            if id(what) in pre and id(what) not in hv:
                raise EngineError(f'loop frame incomplete: container {what!r} mutated in the body but '
                                  f'not havocked (add it to modifies=)')

    def reachable_ids(self, fr):
        seen = set()

        def walk(v):
            if isinstance(v, (VList, VSet, VDict)):
                seen.add(id(v))
            elif isinstance(v, VObj):
                if ('obj', v.ident) in seen:
                    return
                seen.add(('obj', v.ident))
                for x in v.fields.values():
                    walk(x)
            elif isinstance(v, VTuple):
                for x in v.items:
                    walk(x)
        f = fr
        while f is not None:
            for v in f.env.values():
                if isinstance(v, Value):
                    walk(v)
            f = f.parent
        return seen

    # =====================================================================================
    # assignment / attributes / items
    # =====================================================================================
    def assign(self, t, v, fr):
        if isinstance(t, ast.Name):
            if self.mode != 'spec' and (not getattr(fr, 'scratch', False) or t.id in fr.declared_nonlocal):
                self.touch(('name', t.id))
            c = fr.contract
            if c is not None and t.id in c.locals:
                v = self.coerce_local(v, c.locals[t.id])
            owner = fr
            if t.id in fr.declared_nonlocal:
                owner = fr.parent
                while owner is not None and t.id not in owner.env:
                    owner = owner.parent
                if owner is None:
                    raise EngineError(f'nonlocal {t.id} not found')
            owner.env[t.id] = v
        elif isinstance(t, (ast.Tuple, ast.List)):
            v = self.resolve(v)
            items = self.unpack(v, len(t.elts), t)
            for tt, x in zip(t.elts, items):
                self.assign(tt, x, fr)
        elif isinstance(t, ast.Attribute):
            obj = self.eval(t.value, fr)
            from .values import VTuple as _VT
            k = getattr(obj, '_kind', None) if isinstance(obj, _VT) else None
            if k is not None and k.fields and t.attr in k.fields and isinstance(t.value, ast.Name):
                # a record (attrs / slots object modelled as a tuple of fields) held in a LOCAL VARIABLE: the assignment
                # updates that variable.  Other references to the same object (the container it was taken from) do not see
                # the update - listed assumption A-ALIAS; the functions under contract do not read the object through another
                # reference afterwards.
                self.assumed.add('A-ALIAS: attribute assignment on a record held in a local variable updates that variable only')
                items = list(obj.items)
                items[k.fields.index(t.attr)] = v
                nt = _VT(tuple(items))
                nt._kind = k
                self.assign(t.value, nt, fr)
                return
            self.set_attr(obj, t.attr, v, t)
        elif isinstance(t, ast.Subscript):
            obj = self.eval(t.value, fr)
            idx = self.eval_index(t.slice, fr)
            self.set_item(obj, idx, v, t)
        elif isinstance(t, ast.Starred):
            raise EngineError('starred assignment')
        else:
            raise EngineError(f'unsupported assignment target {type(t).__name__}')

    def coerce_local(self, v, kind):
        if isinstance(v, VList) and v.ek is None and isinstance(kind, KList):
            v.ek = kind.elem
            v.arr = empty_array(kind.elem)
        elif isinstance(v, VSet) and v.ek is None and isinstance(kind, KSet):
            v.ek = kind.elem
            v.dom = z3.K(kind.elem.sort(), z3.BoolVal(False))
        elif isinstance(v, VDict) and v.kk is None and isinstance(kind, KDict):
            v.ensure_kinds(kind.key, kind.val)
        return v

    def unpack(self, v, n, node):
        if isinstance(v, VTuple):
            if len(v.items) != n:
                raise PyRaise(VExc('ValueError'), node)
            return list(v.items)
        if isinstance(v, VList):
            if self.mode == 'code':
                if not self.branch(v.n == n):
                    raise PyRaise(VExc('ValueError'), node)
            if v.ek is None:
                raise PyRaise(VExc('ValueError'), node)
            return [v.ek.wrap(z3.Select(v.arr, i), self) for i in range(n)]
        from .builtins import VJList, UF, J_sort
        if isinstance(v, VJList):
            ln = UF('jlist_len', z3.IntSort(), z3.IntSort())(v.ident)
            self.raise_if(ln != n, 'ValueError', node)
            item = UF('jlist_item', z3.IntSort(), z3.IntSort(), J_sort())
            return [VJ(item(v.ident, i)) for i in range(n)]
        if isinstance(v, VConst) and (v.py is None or isinstance(v.py, (int, float))) or \
                type(v).__name__ in ('VInt', 'VBool', 'VFloat'):
            raise PyRaise(VExc('TypeError'), node)
        raise EngineError(f'cannot unpack {v!r}')

    def get_attr(self, obj, attr, node, fr):
        from . import builtins as B
        return B.get_attr(self, obj, attr, node, fr)

    def set_attr(self, obj, attr, v, node):
        obj = self.resolve(obj)
        if not isinstance(obj, VObj):
            raise EngineError(f'attribute store on {obj!r}')
        if self.after_await is not None and self.mode == 'code' and obj is self.after_await[0]:
            self.fail(f'{self.cur_fn}.state-access-after-await.{attr}',
                      f'{attr} written after the suspension point at {self.after_await[1]}')
        self.touch(('field', obj.ident, attr))
        if isinstance(v, _Linked_types) and v.parent is not None:
            v = self.detach(v)
        obj.fields[attr] = v

    def detach(self, v):
        '''A container view stored elsewhere: copy (value semantics for nested containers).'''
        if isinstance(v, VList):
            c = VList(v.arr, v.n, v.ek)
        elif isinstance(v, VSet):
            c = VSet(v.dom, v.ek)
        else:
            c = VDict(v.map, v.dom, v.kk, v.vk, v.default)
        return c

    def eval_index(self, sl, fr):
        if isinstance(sl, ast.Slice):
            lo = self.eval(sl.lower, fr) if sl.lower is not None else None
            hi = self.eval(sl.upper, fr) if sl.upper is not None else None
            st = self.eval(sl.step, fr) if sl.step is not None else None
            return VSlice(lo, hi, st)
        return self.eval(sl, fr)

    def get_item(self, obj, idx, node):
        from . import builtins as B
        return B.get_item(self, obj, idx, node)

    def set_item(self, obj, idx, v, node):
        from . import builtins as B
        return B.set_item(self, obj, idx, v, node)

    def del_item(self, obj, idx, node):
        from . import builtins as B
        return B.del_item(self, obj, idx, node)

    def inplace_extend(self, cur, rhs, node):
        from . import builtins as B
        return B.inplace_extend(self, cur, rhs, node)

    # =====================================================================================
    # expressions
    # =====================================================================================
    def eval(self, e, fr):
        m = getattr(self, 'ev_' + type(e).__name__, None)
        if m is None:
            raise EngineError(f'unsupported expression {type(e).__name__} at line {getattr(e, "lineno", "?")}')
        return m(e, fr)

    def branch_on(self, test, fr):
        '''Evaluate a condition with Python's short-circuit semantics and split on it.'''
        if isinstance(test, ast.BoolOp):
            if isinstance(test.op, ast.And):
                for v in test.values:
                    if not self.branch_on(v, fr):
                        return False
                return True
            for v in test.values:
                if self.branch_on(v, fr):
                    return True
            return False
        if isinstance(test, ast.UnaryOp) and isinstance(test.op, ast.Not):
            return not self.branch_on(test.operand, fr)
        return self.branch(self.truth(self.eval(test, fr)))

    def ev_Constant(self, e, fr):
        return VConst(e.value)

    def ev_Name(self, e, fr):
        name = e.id
        if fr.has(name):
            v = fr.lookup(name)
            if isinstance(v, VOptTerm) and v.res is not None:
                return v.res      # already resolved on this path
            return v
        if self.mode == 'spec':
            v = self.spec_name(name, fr)
            if v is not None:
                return v
        if fr.mod is not None:
            v = self.lookup_global(name, fr.mod)
            if v is not None:
                return v
        from . import builtins as B
        v = B.builtin_name(self, name)
        if v is not None:
            return v
        if self.mode == 'spec':
            raise EngineError(f'unknown name {name!r} in specification expression')
        raise EngineError(f'unresolved name {name!r} in {fr.fkey}')

    def spec_name(self, name, fr):
        from . import builtins as B
        if name in self.reg.specfuns:
            return VFunc('spec', name)
        if name in B.SPEC_FUNCS:
            return VFunc('specb', name)
        if name in self.reg.kinds:
            return VKind(self.reg.kinds[name])
        if name in B.KIND_NAMES:
            return VKind(B.KIND_NAMES[name])
        if name in self.reg.globals_:
            v = self.reg.globals_[name]
            return v if isinstance(v, Value) else VConst(v)
        return None

    def lookup_global(self, name, mod):
        key = (mod.relpath, name)
        if key in self.glob_cache:
            return self.glob_cache[key]
        v = self._lookup_global(name, mod)
        if v is not None:
            self.glob_cache[key] = v
        return v

    def _lookup_global(self, name, mod):
        from . import builtins as B
        if name in mod.functions and '.' not in name:
            return VFunc('repo', name, target=f'{mod.relpath}:{name}')
        if name in mod.classes:
            return B.repo_class(self, mod, name)
        if name in mod.assigns:
            ov = B.module_const_override(self, mod, name)
            if ov is not None:
                return ov
            fr = Frame(mod, f'{mod.relpath}:<module>')
            saved = self.mode, self.mutlog
            self.mode, self.mutlog = 'code', None
            try:
                return self.eval(mod.assigns[name], fr)
            finally:
                self.mode, self.mutlog = saved
        if name in mod.imports:
            imp = mod.imports[name]
            if imp[0] == 'from':
                m2 = self.repo.module_by_dotted(imp[1])
                if m2 is not None:
                    v = self.lookup_global(imp[2], m2)
                    if v is not None:
                        return v
                    sub = self.repo.module_by_dotted(imp[1] + '.' + imp[2])
                    if sub is not None:
                        return VModule(imp[1] + '.' + imp[2])
                    raise EngineError(f'cannot resolve {imp[1]}.{imp[2]}')
                return B.library_name(self, imp[1], imp[2])
            return VModule(imp[1])
        return None

    def ev_Attribute(self, e, fr):
        obj = self.eval(e.value, fr)
        return self.get_attr(obj, e.attr, e, fr)

    def ev_Subscript(self, e, fr):
        obj = self.eval(e.value, fr)
        idx = self.eval_index(e.slice, fr)
        return self.get_item(obj, idx, e)

    def ev_Tuple(self, e, fr):
        items = []
        for x in e.elts:
            if isinstance(x, ast.Starred):
                v = self.resolve(self.eval(x.value, fr))
                ci = self.concrete_items(v)
                if ci is None:
                    raise EngineError('starred element of symbolic length')
                items.extend(ci)
            else:
                items.append(self.eval(x, fr))
        return VTuple(items)

    def ev_List(self, e, fr):
        items = [self.eval(x, fr) for x in e.elts]
        if not items:
            return VList(None, z3.IntVal(0), None)
        return tuple_to_list(VTuple(items))

    def ev_Set(self, e, fr):
        items = [self.eval(x, fr) for x in e.elts]
        ek = kind_of(items[0])
        dom = z3.K(ek.sort(), z3.BoolVal(False))
        for x in items:
            dom = z3.Store(dom, ek.unwrap(x), z3.BoolVal(True))
        return VSet(dom, ek)

    def ev_Dict(self, e, fr):
        d = VDict(None, None, None, None)
        for k, v in zip(e.keys, e.values):
            if k is None:
                raise EngineError('dict unpacking in literal')
            self.set_item(d, self.eval(k, fr), self.eval(v, fr), e)
        if e.keys and all(isinstance(k, ast.Constant) and isinstance(k.value, str) for k in e.keys):
            pass
        return d

    def ev_JoinedStr(self, e, fr):
        from . import builtins as B
        # formatting is assumed total (T-STR); sub-expressions are evaluated for their own exceptions
        parts = []
        for v in e.values:
            if isinstance(v, ast.FormattedValue):
                val = self.eval(v.value, fr)
                parts.append(val)
                if v.format_spec is not None:
                    B.check_format_spec(self, val, v.format_spec, v)
        self.assumed.add('T-STR')
        return B.fresh_str(self, 'fstr')

    def ev_UnaryOp(self, e, fr):
        v = self.eval(e.operand, fr)
        if isinstance(e.op, ast.Not):
            t = self.truth(v)
            return VConst(not t) if isinstance(t, bool) else KBool.wrap(z3.Not(t))
        v = self.resolve(v)
        if isinstance(e.op, ast.USub):
            if isinstance(v, VConst):
                return VConst(-v.py)
            if is_intlike(v):
                return VInt(-int_term(v))
            if isinstance(v, VReal):
                return VReal(-v.t)
        if isinstance(e.op, ast.UAdd) and (is_intlike(v) or is_reallike(v)):
            return v
        raise EngineError(f'unsupported unary op on {v!r}')

    def ev_BinOp(self, e, fr):
        a = self.eval(e.left, fr)
        b = self.eval(e.right, fr)
        return self.binop(e.op, a, b, e)

    def binop(self, op, a, b, node):
        from . import builtins as B
        return B.binop(self, op, a, b, node)

    def ev_BoolOp(self, e, fr):
        if self.mode != 'code':
            terms = []
            last = None
            is_and_ = isinstance(e.op, ast.And)
            for v in e.values:
                last = self.eval(v, fr)
                t = self.truth(last)
                if isinstance(t, bool) and t != is_and_:
                    return VConst(t)      # decided: the remaining operands are not evaluated
                terms.append(z3.BoolVal(t) if isinstance(t, bool) else t)
            r = z3.And(*terms) if isinstance(e.op, ast.And) else z3.Or(*terms)
            return KBool.wrap(z3.simplify(r) if len(terms) < 8 else r)
        # code mode: value semantics with short circuit
        is_and = isinstance(e.op, ast.And)
        v = None
        for i, x in enumerate(e.values):
            v = self.eval(x, fr)
            if i == len(e.values) - 1:
                return v
            t = self.branch(self.truth(v))
            if is_and and not t:
                return v
            if not is_and and t:
                return v
        return v

    def ev_IfExp(self, e, fr):
        if self.mode == 'code':
            if self.branch_on(e.test, fr):
                return self.eval(e.body, fr)
            return self.eval(e.orelse, fr)
        c = self.truth(self.eval(e.test, fr))
        if isinstance(c, bool):
            return self.eval(e.body if c else e.orelse, fr)
        if self.mode == 'quant':
            self.solver.push()
            n = len(self.pc)
            self.assume(c)
            a = self.eval(e.body, fr)
            self.solver.pop()
            del self.pc[n:]
            self.solver.push()
            self.assume(z3.Not(c))
            b = self.eval(e.orelse, fr)
            self.solver.pop()
            del self.pc[n:]
        else:
            a = self.eval(e.body, fr)
            b = self.eval(e.orelse, fr)
        return self.ite(c, a, b)

    def ite(self, c, a, b):
        if isinstance(a, VConst) and isinstance(b, VConst) and a.py == b.py and type(a.py) == type(b.py):
            return a
        ka = kind_of(a) if not (isinstance(a, VConst) and a.py is None) else None
        kb = kind_of(b) if not (isinstance(b, VConst) and b.py is None) else None
        if ka is None and kb is None:
            return a
        if ka is None or kb is None:
            k = KOpt(ka or kb)
            return VOptTerm(z3.If(c, k.unwrap(a), k.unwrap(b)), k)
        if ka == KBool and kb == KInt or ka == KInt and kb == KBool:
            return VInt(z3.If(c, int_term(a), int_term(b)))
        if ka != kb:
            if {ka, kb} <= {KInt, KReal, KBool}:
                return VReal(z3.If(c, real_term(a), real_term(b)))
            raise EngineError(f'ite over different kinds {ka} / {kb}')
        return ka.wrap(z3.If(c, ka.unwrap(a), ka.unwrap(b)), self)

    def ev_Compare(self, e, fr):
        from . import builtins as B
        left = self.eval(e.left, fr)
        if len(e.ops) == 1:
            right = self.eval(e.comparators[0], fr)
            return B.compare(self, e.ops[0], left, right, e)
        # chained: a < b < c  == (a < b) and (b < c) with short circuit
        terms = []
        for op, cnode in zip(e.ops, e.comparators):
            right = self.eval(cnode, fr)
            r = B.compare(self, op, left, right, e)
            t = self.truth(r)
            if self.mode == 'code':
                if not self.branch(t):
                    return VConst(False)
            else:
                terms.append(z3.BoolVal(t) if isinstance(t, bool) else t)
            left = right
        if self.mode == 'code':
            return VConst(True)
        return KBool.wrap(z3.And(*terms))

    def ev_Await(self, e, fr):
        v = self.eval(e.value, fr)
        self.interference_point(e, fr)
        return v

    def interference_point(self, e, fr):
        c = fr.contract
        if c is None or not c.interference or self.mode != 'code':
            return
        spec = c.interference
        # the class invariant (and any declared `holds`) must be re-established before the
        # task can be suspended
        tag = self.stmt_tag(e)
        if spec.get('holds_inv'):
            root = fr
            while root.parent is not None and 'self' not in root.env:
                root = root.parent
            selfv = self.spec_env(fr).get('self')
            cs = self.reg.classes.get(selfv.cls) if isinstance(selfv, VObj) else None
            for lab, inv in (cs.inv if cs else []):
                self.prove(f'{self.fn_label(fr)}.rely@{tag}.{lab}', self.spec_bool(inv, {'self': selfv}),
                           where=self.where(e, fr))
            if spec.get('no_access_after'):
                self.after_await = (selfv, self.where(e, fr))
        for lab, cond in [(_l(i, x)) for i, x in enumerate(spec.get('holds', []))]:
            self.prove(f'{self.fn_label(fr)}.rely@{tag}.{lab}', self.spec_bool(cond, self.spec_env(fr), fr.old),
                       where=self.where(e, fr))
        if spec.get('skip_at') and any(s in ast.unparse(e) for s in spec['skip_at']):
            return
        pre = self.snapshot(self.spec_env(fr))
        for src in spec.get('havoc', []):
            node = parse_expr(src)
            obj = self.spec_eval(node.value, self.spec_env(fr))
            self.havoc_field(obj, node.attr)
        env = self.spec_env(fr)
        env['pre'] = VEnv(pre)
        for cond in spec.get('rely', []):
            self.assume(self.spec_bool(cond, env, pre))

    def ev_Lambda(self, e, fr):
        return VFunc('lambda', '<lambda>', target=(e, fr))

    def ev_NamedExpr(self, e, fr):
        v = self.eval(e.value, fr)
        self.assign(e.target, v, fr)
        return v

    def ev_Starred(self, e, fr):
        raise EngineError('starred expression outside call/tuple')

    def ev_ListComp(self, e, fr):
        from . import builtins as B
        return B.comprehension(self, e, fr, 'list')

    def ev_SetComp(self, e, fr):
        from . import builtins as B
        return B.comprehension(self, e, fr, 'set')

    def ev_GeneratorExp(self, e, fr):
        from . import builtins as B
        return B.comprehension(self, e, fr, 'gen')

    def ev_DictComp(self, e, fr):
        from . import builtins as B
        return B.comprehension(self, e, fr, 'dict')

    def ev_Call(self, e, fr):
        from . import builtins as B
        if self.mode == 'spec':
            r = B.spec_call(self, e, fr)
            if r is not NotImplemented:
                return r
        if extract.is_logger_call(e):
            self.V.dropped.add('logger call')
            return VConst(None)
        f = self.eval(e.func, fr)
        args = []
        for a in e.args:
            if isinstance(a, ast.Starred):
                v = self.resolve(self.eval(a.value, fr))
                ci = self.concrete_items(v)
                if ci is None:
                    raise EngineError('*args of symbolic length')
                args.extend(ci)
            else:
                args.append(self.eval(a, fr))
        kwargs = {}
        for k in e.keywords:
            if k.arg is None:
                raise EngineError('**kwargs in call')
            kwargs[k.arg] = self.eval(k.value, fr)
        return self.call(f, args, kwargs, e, fr)

    # =====================================================================================
    # calls
    # =====================================================================================
    def call(self, f, args, kwargs, node, fr):
        from . import builtins as B
        f = self.resolve(f)
        if isinstance(f, VFunc):
            if f.fkind == 'repo':
                return self.call_repo(f, args, kwargs, node, fr)
            if f.fkind in ('closure', 'lambda'):
                return self.call_closure(f, args, kwargs, node, fr)
            if f.fkind == 'spec':
                fd, aks, rk = self.reg.specfuns[f.name]
                if len(args) != len(aks):
                    raise EngineError(f'spec function {f.name}: arity')
                return rk.wrap(fd(*[k.unwrap(self.resolve(a)) for k, a in zip(aks, args)]), self)
            return B.call_builtin(self, f, args, kwargs, node, fr)
        if isinstance(f, VClass):
            return B.call_class(self, f, args, kwargs, node, fr)
        raise EngineError(f'call of non-callable {f!r} at line {getattr(node, "lineno", "?")}')

    def bind_params(self, fnode, args, kwargs, self_val=None):
        a = fnode.args
        params = [p.arg for p in a.posonlyargs + a.args]
        env = {}
        args = list(args)
        if self_val is not None:
            args = [self_val] + args
        if len(args) > len(params) and a.vararg is None:
            raise PyRaise(VExc('TypeError'))
        for p, v in zip(params, args):
            env[p] = v
        if a.vararg is not None:
            env[a.vararg.arg] = VTuple(args[len(params):])
        defaults = a.defaults
        dstart = len(params) - len(defaults)
        for i, p in enumerate(params):
            if p in env:
                continue
            if p in kwargs:
                env[p] = kwargs.pop(p)
            elif i >= dstart:
                env[p] = ('default', defaults[i - dstart])
            else:
                raise PyRaise(VExc('TypeError'))
        for p, d in zip(a.kwonlyargs, a.kw_defaults):
            if p.arg in kwargs:
                env[p.arg] = kwargs.pop(p.arg)
            elif d is not None:
                env[p.arg] = ('default', d)
            else:
                raise PyRaise(VExc('TypeError'))
        if kwargs:
            if a.kwarg is None:
                raise PyRaise(VExc('TypeError'))
            raise EngineError('**kwargs parameter')
        return env

    def eval_defaults(self, env, mod, fkey):
        for k, v in list(env.items()):
            if isinstance(v, tuple) and len(v) == 2 and v[0] == 'default':
                env[k] = self.eval(v[1], Frame(mod, fkey))

    def call_repo(self, f, args, kwargs, node, fr):
        key = f.target
        c = self.reg.contracts.get(key)
        if c is None:
            # a callee known to this caller only through a declared summary (views=)
            f0 = fr
            while f0 is not None and (f0.contract is None or getattr(f0.contract, 'inline', False)):
                f0 = f0.parent
            views = getattr(f0.contract, 'views', None) if f0 is not None else None
            if views and key in views:
                c = views[key]
        mod, fnode = self.repo.function(key)
        if c is not None and not c.inline:
            return self.apply_contract(c, fnode, mod, f, args, kwargs, node, fr)
        if key in self.reg.inline or (c is not None and c.inline):
            env = self.bind_params(fnode, args, dict(kwargs), f.self_val)
            self.eval_defaults(env, mod, key)
            nf = Frame(mod, key, env, contract=c if (c is not None and c.inline) else None)
            nf.scratch = True        # the callee's own locals
            nf.old = self.snapshot(env)
            self.V.inlined.add(key)
            return self.run_body(fnode, nf)
        raise EngineError(f'call to {key} which has neither a contract nor an inline declaration '
                          f'(line {getattr(node, "lineno", "?")} of {fr.fkey})')

    def call_closure(self, f, args, kwargs, node, fr):
        fnode, parent = f.target
        if isinstance(fnode, ast.Lambda):
            env = self.bind_params(fnode, args, dict(kwargs))
            nf = Frame(parent.mod, parent.fkey + '.<lambda>', env, parent=parent)
            self.eval_defaults(env, parent.mod, nf.fkey)
            return self.eval(fnode.body, nf)
        key = f'{parent.fkey}.<locals>.{fnode.name}'
        c = self.reg.contracts.get(key)
        if c is not None and not c.inline:
            return self.apply_contract(c, fnode, parent.mod, f, args, kwargs, node, fr)
        env = self.bind_params(fnode, args, dict(kwargs))
        nf = Frame(parent.mod, key, env, parent=parent, contract=c)
        nf.scratch = True            # the closure's own locals (nonlocal names go to the owner frame)
        self.eval_defaults(env, parent.mod, key)
        return self.run_body(fnode, nf)

    def run_body(self, fnode, nf):
        is_gen = any(isinstance(n, (ast.Yield, ast.YieldFrom)) for n in walk_no_nested(fnode))
        if is_gen:
            nf.yielded = VList(None, z3.IntVal(0), None)
            c_ = nf.contract
            if c_ is not None and '_yielded' in c_.locals:
                self.coerce_local(nf.yielded, c_.locals['_yielded'])
            nf.env['_yielded'] = nf.yielded        # ghost name of what has been yielded so far
        try:
            self.exec_block(extract.strip_docstring(fnode.body), nf)
        except ReturnEx as r:
            if is_gen:
                return nf.yielded
            return r.value
        if is_gen:
            return nf.yielded
        return VConst(None)

    def ev_Yield(self, e, fr):
        from . import builtins as B
        if fr.yielded is None:
            raise EngineError('yield outside generator frame')
        v = self.eval(e.value, fr) if e.value is not None else VConst(None)
        B.list_append(self, fr.yielded, v)
        return VConst(None)

    def apply_contract(self, c, fnode, mod, f, args, kwargs, node, fr):
        '''Modular call: assert the precondition, havoc the frame, assume a postcondition.'''
        env = self.bind_params(fnode, args, dict(kwargs), f.self_val)
        self.eval_defaults(env, mod, c.key)
        return self.apply_contract_env(c, env, node, fr)

    def apply_contract_env(self, c, env, node, fr):
        # a caller may use a declared SUMMARY of a callee instead of the callee's full contract (dsl: views={callee: Contract}):
        # weaker postconditions, and preconditions the caller cannot establish are replaced by an explicit assumption that is
        # listed in the evidence (A-VIEW).  The summary's ensures must follow from the callee's contract (reviewed by hand).
        f0 = fr
        while f0 is not None and (f0.contract is None or getattr(f0.contract, 'inline', False)):
            f0 = f0.parent
        views = getattr(f0.contract, 'views', None) if f0 is not None else None
        if views and c.key in views:
            v = views[c.key]
            self.assumed.add(f'A-VIEW: {short_key(f0.contract.key)} uses a summary of {short_key(c.key)}: {v.trusted}')
            c = v
            # a summary is written for ONE caller: its conditions may mention that caller's variables
            cenv = self.spec_env(fr)
            env = {**{k: x for k, x in cenv.items() if k not in env}, **env}
        callee = short_key(c.key)
        if self.mode == 'quant':
            # inside a comprehension element: only calls whose result is a specification expression
            if c.pure is None:
                raise EngineError(f'{c.key} called inside a comprehension needs a `pure` result expression')
            if c.trusted:
                self.assumed.add(c.trusted)
            self.V.used_contracts.add(c.key)
            for typ, conds in c.raises.items():
                cond = z3.And(*[self.spec_bool(x, env) for x in conds]) if conds else z3.BoolVal(True)
                self.raise_if(cond, typ, node)
            return self.spec_eval(c.pure, env)
        site = f'{self.fn_label(fr)}.pre@{self.stmt_tag(node)}:{callee}'
        where = self.where(node, fr)
        if c.trusted:
            self.assumed.add(c.trusted)
        self.V.used_contracts.add(c.key)
        env = dict(env)
        # the arguments must have the Python types the callee's contract is stated for
        if self.mode == 'code':
            from . import builtins as B
            for pname, kind in c.params.items():
                if pname in env and isinstance(env[pname], Value):
                    ok, conv = B.conforms(self, env[pname], kind)
                    if not ok:
                        self.fail(f'{site}.type.{pname}', f'argument {pname} is not a {kind.name}', where=where)
                    env[pname] = conv
        # ghost parameters: the caller names the witness (a ghost variable of the same name in its scope)
        for gname in c.ghost_params:
            cenv = self.spec_env(fr)
            if gname not in cenv:
                raise EngineError(f'call to {c.key}: ghost parameter {gname} has no witness in the caller')
            env[gname] = cenv[gname]
        # free variables of a nested function under contract: their values at the call (the caller's variables)
        for cname in (getattr(c, 'closure_env', None) or {}):
            if cname not in env:
                cenv = self.spec_env(fr)
                if cname not in cenv:
                    raise EngineError(f'call to {c.key}: closure variable {cname} is not bound in the caller')
                env[cname] = cenv[cname]
        for lab, req in c.requires:
            self.prove(f'{site}.{lab}', self.spec_bool(req, env), where=where)
        selfv = env.get('self')
        if isinstance(selfv, VObj) and c.assumes_inv:
            spec = self.reg.classes.get(selfv.cls)
            if spec:
                for lab, inv in spec.inv:
                    self.prove(f'{site}.inv.{lab}', self.spec_bool(inv, {'self': selfv}), where=where)
        old = self.snapshot(env)
        for src in c.modifies:
            n = parse_expr(src)
            if isinstance(n, ast.Attribute):
                obj = self.spec_eval(n.value, env)
                self.havoc_field(obj, n.attr)
                self.touch(('field', obj.ident, n.attr))
            else:
                v = self.spec_eval(n, env)
                self.touch(v)
                self.havoc_inplace(v, set())
        options = ['return'] + sorted(c.raises.keys())
        if c.noreturn:
            options = options[1:]
        d = self.choose(len(options), options) if len(options) > 1 else 0
        if options[d] == 'return':
            if c.returns is not None:
                res = c.returns.fresh(self, 'r_' + callee.split('.')[-1])
            else:
                res = VConst(None)
            for fname, src in c.bind_result.items():
                res.fields[fname] = self.spec_eval(src, env)
            if 'result' not in (c.params or {}):
                env['result'] = res
            env['ret'] = res                            # alias, for functions that have a parameter called `result`
            for gname, gk in c.ghost_results.items():
                env[gname] = gk.fresh(self, gname)      # existential witnesses of the callee's ghost outputs
                fr.env[gname] = env[gname]              # ... visible to the caller's own ghost code
            for lab, ens in c.ensures:
                self.assume(self.spec_bool(ens, env, old))
            if isinstance(selfv, VObj) and c.maintains_inv:
                spec = self.reg.classes.get(selfv.cls)
                if spec:
                    for lab, inv in spec.inv:
                        self.assume(self.spec_bool(inv, {'self': selfv}))
            self.end_if_infeasible()
            return res
        typ = options[d]
        for cond in c.raises[typ]:
            self.assume(self.spec_bool(cond, env, old))
        if isinstance(selfv, VObj) and c.maintains_inv:
            spec = self.reg.classes.get(selfv.cls)
            if spec:
                for lab, inv in spec.inv:
                    self.assume(self.spec_bool(inv, {'self': selfv}))
        self.end_if_infeasible()
        args = c.raises_args[typ](self) if typ in c.raises_args else ()
        raise PyRaise(VExc(typ, args), node)

    # =====================================================================================
    # helpers
    # =====================================================================================
    def resolve(self, v):
        from . import builtins as B
        return B.resolve(self, v)

    def truth(self, v):
        from . import builtins as B
        return B.truth(self, v)

    def fn_label(self, fr):
        f = fr
        while f.parent is not None and f.contract is None:
            f = f.parent
        return short_key(f.contract.key if f.contract else f.fkey)

    def stmt_tag(self, node):
        '''A tag for a program point that survives unrelated edits: the text of the
        expression/statement, abbreviated (not the line number).'''
        try:
            t = ast.unparse(node)
        except Exception:
            t = type(node).__name__
        t = ' '.join(t.split())
        return t if len(t) <= 48 else t[:45] + '...'

    def where(self, node, fr):
        return f'{fr.mod.relpath if fr.mod else "?"}:{getattr(node, "lineno", "?")}'

    def pow2(self, t):
        '''pow2 is uninterpreted; facts are instantiated for each term it is applied to.'''
        f = self.V.pow2
        t = z3.simplify(t)
        if z3.is_int_value(t) and 0 <= t.as_long() <= 4096:
            return z3.IntVal(2 ** t.as_long())
        r = f(t)
        key = t.sexpr()
        if key not in self.pow2_seen:
            self.pow2_seen.add(key)
            self.assume(z3.Implies(t >= 0, r >= 1))
            self.assume(z3.Implies(t == 0, r == 1))
            self.assume(z3.Implies(t >= 1, r == 2 * f(t - 1)))
            self.assume(z3.Implies(t >= 1, f(t - 1) >= 1))
            self.assume(z3.Implies(t >= 0, f(t + 1) == 2 * r))
        return r


def _l(i, x):
    return x if isinstance(x, tuple) else (str(i), x)


_Linked_types = (VList, VSet, VDict)


class VSlice(Value):
    def __init__(self, lo, hi, step):
        self.lo, self.hi, self.step = lo, hi, step


class VRange(Value):
    def __init__(self, start, stop, step):
        self.start, self.stop, self.step = start, stop, step

    def count_term(self):
        a, b = int_term(self.start), int_term(self.stop)
        if not isinstance(self.step, VConst):
            raise EngineError('range with symbolic step')
        s = self.step.py
        if s > 0:
            return z3.simplify(z3.If(b > a, (b - a + (s - 1)) / s, 0))
        if s < 0:
            return z3.simplify(z3.If(a > b, (a - b + (-s - 1)) / (-s), 0))
        raise PyRaise(VExc('ValueError'))


class VDictItems(Value):
    '''d.items() / d.values() / d.keys() view'''

    def __init__(self, d, what='items'):
        self.d, self.what = d, what


class VKind(Value):
    def __init__(self, k):
        self.k = k


class VEnv(Value):
    '''A snapshot environment usable in spec expressions as pre.<name>'''

    def __init__(self, env):
        self.env = env


class VJ(Value):
    '''A JSON value (client argument): resolved lazily to a concrete shape.'''

    def __init__(self, t):
        self.t = t
        self.res = None

    @property
    def kind(self):
        from .builtins import KJ
        return KJ


def short_key(key):
    '''electrumx/lib/merkle.py:Merkle.branch_length -> merkle.Merkle.branch_length'''
    if ':' not in key:
        return key
    path, q = key.split(':')
    base = path.rsplit('/', 1)[-1]
    if base.endswith('.py'):
        base = base[:-3]
    return f'{base}.{q}'


def walk_no_nested(fnode):
    stack = list(ast.iter_child_nodes(fnode))
    while stack:
        n = stack.pop()
        yield n
        if isinstance(n, (ast.FunctionDef, ast.AsyncFunctionDef, ast.Lambda, ast.ClassDef)):
            continue
        stack.extend(ast.iter_child_nodes(n))


MUTATORS = {'append', 'extend', 'pop', 'update', 'add', 'remove', 'discard', 'clear', 'insert',
            'setdefault', 'popitem', 'sort', 'reverse', 'difference_update', 'intersection_update',
            'put', 'delete', 'write'}


def assigned_in_target(t):
    names, exprs = set(), []
    if isinstance(t, ast.Name):
        names.add(t.id)
    elif isinstance(t, (ast.Tuple, ast.List)):
        for x in t.elts:
            n, e = assigned_in_target(x)
            names |= n
            exprs += e
    elif isinstance(t, ast.Attribute):
        exprs.append(t)            # field store: havoc that field
    elif isinstance(t, ast.Subscript):
        exprs.append(t.value)      # container store: havoc the container
    elif isinstance(t, ast.Starred):
        return assigned_in_target(t.value)
    return names, exprs


def assigned_in(stmts):
    '''Names (re)bound and container/field expressions mutated anywhere in the statements
    (nested function bodies excluded).'''
    names, exprs = set(), []

    class V(ast.NodeVisitor):
        def visit_FunctionDef(self, n):
            names.add(n.name)

        visit_AsyncFunctionDef = visit_FunctionDef

        def visit_Lambda(self, n):
            pass

        def visit_Assign(self, n):
            for t in n.targets:
                a, b = assigned_in_target(t)
                names.update(a)
                exprs.extend(b)
            self.generic_visit(n)

        def visit_AugAssign(self, n):
            a, b = assigned_in_target(n.target)
            names.update(a)
            exprs.extend(b)
            if isinstance(n.target, ast.Name):
                exprs.append(n.target)
            self.generic_visit(n)

        def visit_AnnAssign(self, n):
            a, b = assigned_in_target(n.target)
            names.update(a)
            exprs.extend(b)
            self.generic_visit(n)

        def visit_NamedExpr(self, n):
            names.add(n.target.id)
            self.generic_visit(n)

        def visit_For(self, n):
            a, b = assigned_in_target(n.target)
            names.update(a)
            exprs.extend(b)
            self.generic_visit(n)

        visit_AsyncFor = visit_For

        def visit_With(self, n):
            for it in n.items:
                if it.optional_vars is not None:
                    a, b = assigned_in_target(it.optional_vars)
                    names.update(a)
                    exprs.extend(b)
            self.generic_visit(n)

        visit_AsyncWith = visit_With

        def visit_ExceptHandler(self, n):
            if n.name:
                names.add(n.name)
            self.generic_visit(n)

        def visit_Delete(self, n):
            for t in n.targets:
                if isinstance(t, ast.Subscript):
                    exprs.append(t.value)
                elif isinstance(t, ast.Name):
                    names.add(t.id)
            self.generic_visit(n)

        def visit_Call(self, n):
            if isinstance(n.func, ast.Attribute) and n.func.attr in MUTATORS:
                r = n.func.value
                exprs.append(r)
                while isinstance(r, ast.Subscript):      # d[k].append(x) also changes d
                    r = r.value
                    exprs.append(r)
            self.generic_visit(n)

        def visit_comprehension(self, n):
            self.generic_visit(n)

    v = V()
    for s in stmts:
        v.visit(s)
    # field stores: keep Attribute nodes as "havoc field"; others as containers
    return names, exprs
