'''Replay of counter-models on the real code.  Each driver is a script under /verif/replay run
by /venv/bin/python (the interpreter the repository runs under) with a JSON request on stdin;
it answers {"reproduced": bool, "detail": ..., "input": ...} on stdout.'''
import json
import os
import subprocess

VERIF_DIR = os.path.dirname(os.path.dirname(os.path.abspath(__file__)))
VENV_PY = '/venv/bin/python'
REPO = os.environ.get('VERIF_REPO', '/repo')

# obligation-name prefix -> driver script
DRIVERS = []


def driver_for(name):
    best = None
    for prefix, script in DRIVERS:
        if name.startswith(prefix) and (best is None or len(prefix) > len(best[0])):
            best = (prefix, script)
    return best[1] if best else None


def register_driver(prefix, script):
    DRIVERS.append((prefix, script))


def run_driver(script, request, timeout=300):
    env = dict(os.environ)
    env['PYTHONPATH'] = REPO + os.pathsep + env.get('PYTHONPATH', '')
    try:
        p = subprocess.run([VENV_PY, os.path.join(VERIF_DIR, 'replay', script)], input=json.dumps(request, default=str),
                           capture_output=True, text=True, timeout=timeout, env=env, cwd='/')
    except subprocess.TimeoutExpired:
        return {'reproduced': False, 'detail': f'driver timed out after {timeout} s'}
    out = p.stdout.strip().splitlines()
    try:
        return json.loads(out[-1])
    except Exception:
        return {'reproduced': False, 'detail': 'driver gave no verdict', 'stdout': p.stdout[-2000:],
                'stderr': p.stderr[-2000:]}


def try_replay(pid, r, rec):
    from . import replay_drivers   # noqa: registers drivers
    script = driver_for(r['name'])
    if script is None:
        return {'reproduced': False, 'detail': 'no replay driver for this obligation'}
    known = []
    try:
        kp = os.path.join(VERIF_DIR, 'known_findings.json')
        known = sorted(k['id'] for k in json.load(open(kp)) if k.get('status') == 'known')
    except Exception:   # noqa
        pass
    req = {'property': pid, 'obligation': r['name'], 'inputs': r.get('inputs'), 'where': r.get('where'),
           'unit': r.get('unit'), 'known': known}
    try:
        res = run_driver(script, req)
    except Exception as e:   # noqa
        res = {'reproduced': False, 'detail': f'driver failed: {e}'}
    res['driver'] = script
    return res


def replay_file(path):
    from . import replay_drivers   # noqa
    rec = json.load(open(path))
    script = (rec.get('replay') or {}).get('driver') or driver_for(rec['obligation'])
    print(f"obligation: {rec['obligation']}")
    print(f"solver output: {rec.get('solver_output')}")
    if script is None:
        print('no replay driver: the violation is the failed obligation above (no-failing-input-found)')
        print(json.dumps(rec.get('counter_model_inputs'), indent=1, default=str)[:4000])
        return 1
    req = {'property': rec['property'], 'obligation': rec['obligation'], 'inputs': rec.get('counter_model_inputs'),
           'unit': rec.get('unit'),
           'concrete': (rec.get('replay') or {}).get('input')}
    res = run_driver(script, req)
    print(json.dumps(res, indent=1, default=str))
    return 1 if res.get('reproduced') else 0
