'''The sidecar contract language.  Contract files under /verif/contracts are plain Python
that only *registers* data: every condition is a string holding a Python expression, which
the executor parses with `ast` and evaluates symbolically in specification mode (total,
pure).  Nothing in a contract file touches /repo.

Vocabulary available inside condition strings:
  result, old(e), implies(a, b), iff(a, b), ite(c, a, b),
  forall(lambda x=Kind, ...: body), exists(lambda x=Kind, ...: body),
  spec functions declared with specfun(), `x in s`, len(), indexing, field access,
  dom(d) (key set of a dict), union(a, b), inter(a, b), diff(a, b), subset(a, b), empty(K),
  add(s, x), remove(s, x)
Ghost statements (strings, executed in spec mode): assignments to ghost variables/fields,
  use(axiom_or_lemma_name, args...), check(label, expr), assume(expr) (recorded as an assumption).
'''
import ast

from .values import (KExcOr, KRecord, KVarTuple, Kind, KInt, KBool, KReal, KU, KList, KSet, KDict, KTuple, KOpt, KObj,
                     KConst, KOneOf)

Int, Bool, Real = KInt, KBool, KReal
VarTuple = KVarTuple
Record = KRecord
ExcOr = KExcOr


class KCallable(Kind):
    '''A function-valued parameter/field whose behaviour is given by the named contract.'''

    def __init__(self, key, bind=None):
        self.key = key
        self.bind = bind       # name of the parameter the callable is a bound method of (e.g. 'self')
        self.name = 'Callable_' + key

    def fresh(self, ip, hint='f'):
        from .values import VFunc
        f = VFunc('contractref', hint, target=self.key)
        f.bind_name = self.bind
        return f


Callable = KCallable
List, Set, Dict, Tuple, Opt, Obj, Const, OneOf, U = KList, KSet, KDict, KTuple, KOpt, KObj, KConst, KOneOf, KU


class LoopSpec:
    def __init__(self, fingerprint, invariants=(), modifies=(), var_kinds=None, index='_i',
                 done='_done', ghost_begin=(), ghost_end=(), ghost_exit=(), ghost_pre=(), decreases=None,
                 unroll=False):
        self.fingerprint = fingerprint
        self.invariants = [(_lab(i, x)) for i, x in enumerate(invariants)]
        self.modifies = list(modifies)        # extra lvalues havocked besides the computed frame
        self.var_kinds = var_kinds or {}
        self.index = index                    # ghost iteration counter name
        self.done = done                      # ghost "processed so far" set name (set iteration)
        self.ghost_begin = list(ghost_begin)  # ghost statements at the start of the body
        self.ghost_end = list(ghost_end)      # ... at the end of the body, before the invariant
        self.ghost_exit = list(ghost_exit)    # ... after the loop exits normally
        self.ghost_pre = list(ghost_pre)      # ... before the loop is entered
        self.decreases = decreases
        self.unroll = unroll


def _lab(i, x):
    if isinstance(x, tuple):
        return x
    return (str(i), x)


class Contract:
    def __init__(self, key, params=None, returns=None, requires=(), ensures=(), raises=None,
                 modifies=(), loops=None, locals=None, ghost=None, inline=False, pure=None,
                 props=(), trusted=None, maintains_inv=True, assumes_inv=True, generator=None,
                 interference=None, ghost_params=None, noreturn=False, havoc_calls=None,
                 commit=None, canary=True, closure_env=None, prove_asserts=False, ghost_results=None, raises_args=None, defaults=None, portfolio=False, bind_result=None, tier='quick', shard_depth=None, feas_timeout_ms=None, views=None):
        self.key = key
        self.params = params or {}
        self.returns = returns
        self.requires = [_lab(i, x) for i, x in enumerate(requires)]
        self.kf = {}        # label -> (known-finding id, condition delimiting the known failing class)
        self.ensures = []
        for i, x in enumerate(ensures):
            if isinstance(x, dict):
                self.ensures.append((x['label'], x['expr']))
                if 'kf' in x:
                    self.kf[x['label']] = (x['kf'], x['kf_when'])
            else:
                self.ensures.append(_lab(i, x))
        # raises: {'ValueError': [cond, ...]}: allowed escaping exception classes, with
        # conditions (over old state / params) that hold whenever that class escapes
        self.raises = {k: list(v) if isinstance(v, (list, tuple)) else [v]
                       for k, v in (raises or {}).items()}
        self.modifies = list(modifies)
        self.loops = loops or {}
        self.locals = locals or {}
        self.ghost = ghost or {}
        self.inline = inline
        self.pure = pure
        self.props = list(props)
        self.trusted = trusted       # None: verified against the body; str: id of the assumed contract (T-*)
        self.maintains_inv = maintains_inv
        self.assumes_inv = assumes_inv
        self.generator = generator
        self.interference = interference
        self.ghost_params = ghost_params or {}
        self.noreturn = noreturn
        self.havoc_calls = havoc_calls or {}
        self.commit = commit
        self.canary = canary
        self.closure_env = closure_env
        self.ghost_results = ghost_results or {}
        self.defaults = defaults or {}
        self.views = views or {}         # callee key -> Contract used instead of the callee's own contract inside this function
        self.feas_timeout_ms = feas_timeout_ms   # budget of one path-feasibility query (unknown = keep the path)
        self.shard_depth = shard_depth   # explore the path tree in parallel below all decision prefixes of this length
        self.tier = tier                 # 'thorough': only verified by the thorough command (slow unit)
        self.bind_result = bind_result or {}    # fields of a returned object that alias existing objects
        self.portfolio = portfolio      # run cvc5 alongside z3 (byte-sequence VCs)
        self.raises_args = raises_args or {}   # exception class -> callable(ip) -> tuple of argument values
        self.prove_asserts = prove_asserts


class ClassSpec:
    def __init__(self, key, fields=None, ghost=None, inv=(), consts=None, bases=(), methods=None):
        self.key = key
        self.fields = fields or {}
        self.ghost = ghost or {}
        self.inv = [_lab(i, x) for i, x in enumerate(inv)]
        self.consts = consts or {}
        self.bases = list(bases)
        self.methods = methods or {}     # methods defined outside the repository: name -> contract key


class Axiom:
    def __init__(self, name, params, body, kind='definition', hyps=(), proof=(), props=(), cases=None):
        self.name, self.params, self.body = name, params, body
        self.kind = kind            # 'definition' | 'lemma' (proved) | 'assumed' (trusted, listed)
        self.hyps = list(hyps)
        self.proof = list(proof)    # ghost statements used to prove a lemma
        self.props = list(props)
        self.cases = cases          # optional list of case-split expressions for the proof


class Registry:
    def __init__(self):
        self.contracts = {}
        self.classes = {}
        self.specfuns = {}     # name -> (FuncDeclRef, [arg kinds], ret kind)
        self.axioms = {}
        self.kinds = {}
        self.globals_ = {}     # extra names for spec expressions (constants)
        self.func_aliases = {}  # 'path:Class.field' -> spec function name (function-valued fields)
        self.inline = set()
        self.builtin_contracts = {}   # dotted builtin name -> Contract (assumed, T-*)

    # -- declarations ------------------------------------------------------------------
    def usort(self, name, **kw):
        if name not in self.kinds:
            k = KU(name, **kw)
            self.kinds[name] = k
            for py, cname in k.consts.items():
                self.globals_[cname] = k.const(cname)
        else:
            self.kinds[name].attrs.update(kw.get('attrs') or {})
        return self.kinds[name]

    def induction(self, name, params, hyps, concl, base, step, props=()):
        '''A statement derived by the induction principle (meta rule, written once in DESIGN.md)
        from two proved lemmas: `base` and `step`.'''
        self.axioms[name] = Axiom(name, params, concl, kind='induction', hyps=hyps, props=props)
        self.axioms[name].base, self.axioms[name].step = base, step

    def specfun(self, name, argkinds, retkind):
        import z3
        f = z3.Function(name, *[k.sort() for k in argkinds], retkind.sort())
        self.specfuns[name] = (f, list(argkinds), retkind)
        return f

    def axiom(self, name, params, body, **kw):
        self.axioms[name] = Axiom(name, params, body, **kw)

    def lemma(self, name, params, hyps, concl, proof=(), props=(), cases=None):
        self.axioms[name] = Axiom(name, params, concl, kind='lemma', hyps=hyps, proof=proof,
                                  props=props, cases=cases)

    def cls(self, key, **kw):
        self.classes[key] = ClassSpec(key, **kw)
        return self.classes[key]

    def contract(self, key, **kw):
        c = Contract(key, **kw)
        self.contracts[key] = c
        return c

    def harness(self, name, relpath, params, body, ensures, requires=(), inline=(), props=()):
        '''A lemma stated as a few lines of Python over the real functions (run in the namespace of the
        given repository module; the listed functions are executed from their real source, the rest through
        their contracts).'''
        c = Contract('harness:' + name, params=params, requires=requires, ensures=ensures, props=props)
        c.harness = (relpath, body, list(inline))
        self.contracts[c.key] = c
        return c

    def builtin(self, name, **kw):
        c = Contract('builtin:' + name, **kw)
        if c.trusted is None:
            c.trusted = 'T-BUILTIN'
        self.builtin_contracts[name] = c
        return c


def parse_expr(s):
    try:
        return ast.parse(s.strip(), mode='eval').body
    except SyntaxError as e:
        raise SyntaxError(f'in contract expression {s!r}: {e}')


def parse_stmts(s):
    import textwrap
    try:
        return ast.parse(textwrap.dedent(s)).body
    except SyntaxError as e:
        raise SyntaxError(f'in ghost statement {s!r}: {e}')
