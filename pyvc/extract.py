'''Extraction of the real source: parse the working tree of the repository on every run and
hand out the ast nodes of the functions under contract by qualified name.

Nothing is transcribed: the executor works on these nodes.  What is dropped is decided in
one place, `is_dropped_stmt` / `is_dropped_call` below (DESIGN 2.1).
'''
import ast
import hashlib
import os

REPO = os.environ.get('VERIF_REPO', '/repo')


class ModuleInfo:
    def __init__(self, relpath, tree, source):
        self.relpath = relpath
        self.tree = tree
        self.source = source
        self.functions = {}     # qualname -> FunctionDef
        self.classes = {}       # name -> ClassDef
        self.class_bases = {}   # name -> [base expr source]
        self.imports = {}       # local name -> ('module', dotted) | ('from', module, name)
        self.assigns = {}       # module-level simple assignments: name -> value expr node
        self.class_assigns = {}  # (class, name) -> value expr
        self._index(tree.body, '')

    def _index(self, body, prefix, cls=None):
        for node in body:
            if isinstance(node, (ast.FunctionDef, ast.AsyncFunctionDef)):
                q = prefix + node.name
                self.functions[q] = node
                self._index_nested(node, q)
            elif isinstance(node, ast.ClassDef):
                if not prefix:
                    self.classes[node.name] = node
                    self.class_bases[node.name] = [ast.unparse(b) for b in node.bases]
                self._index(node.body, prefix + node.name + '.', cls=node.name)
            elif isinstance(node, ast.Import) and not prefix:
                for a in node.names:
                    self.imports[a.asname or a.name.split('.')[0]] = ('module', a.name if a.asname else a.name.split('.')[0])
            elif isinstance(node, ast.ImportFrom) and not prefix:
                for a in node.names:
                    self.imports[a.asname or a.name] = ('from', node.module, a.name)
            elif isinstance(node, ast.Assign):
                for t in node.targets:
                    if isinstance(t, ast.Name):
                        if cls:
                            self.class_assigns[(cls, t.id)] = node.value
                        elif not prefix:
                            self.assigns[t.id] = node.value
                    elif isinstance(t, ast.Tuple) and not prefix and isinstance(node.value, ast.Tuple):
                        for tt, vv in zip(t.elts, node.value.elts):
                            if isinstance(tt, ast.Name):
                                self.assigns[tt.id] = vv
            elif isinstance(node, (ast.If, ast.Try)) and not prefix:
                pass

    def _index_nested(self, fnode, q):
        for node in ast.walk(fnode):
            if node is fnode:
                continue
            if isinstance(node, (ast.FunctionDef, ast.AsyncFunctionDef)):
                # direct or indirect nesting: register under <locals> of the outermost
                self.functions.setdefault(q + '.<locals>.' + node.name, node)


class Repo:
    def __init__(self, root=None):
        self.root = root or REPO
        self.modules = {}

    def module(self, relpath):
        if relpath not in self.modules:
            path = os.path.join(self.root, relpath)
            with open(path, encoding='utf-8') as f:
                src = f.read()
            self.modules[relpath] = ModuleInfo(relpath, ast.parse(src, filename=path), src)
        return self.modules[relpath]

    def module_by_dotted(self, dotted):
        '''electrumx.lib.util -> electrumx/lib/util.py (None if not a repository module).'''
        rel = dotted.replace('.', '/') + '.py'
        if os.path.exists(os.path.join(self.root, rel)):
            return self.module(rel)
        rel = dotted.replace('.', '/') + '/__init__.py'
        if os.path.exists(os.path.join(self.root, rel)):
            return self.module(rel)
        return None

    def function(self, key):
        '''key = "electrumx/lib/merkle.py:Merkle.branch_length"'''
        relpath, qual = key.split(':')
        mod = self.module(relpath)
        if qual not in mod.functions:
            raise KeyError(f'function {key} not found in the working tree')
        return mod, mod.functions[qual]

    def source_hash(self, key):
        mod, node = self.function(key)
        seg = ast.get_source_segment(mod.source, node) or ast.dump(node)
        return hashlib.sha256(seg.encode()).hexdigest()[:16]


def strip_docstring(body):
    if body and isinstance(body[0], ast.Expr) and isinstance(body[0].value, ast.Constant) \
            and isinstance(body[0].value.value, str):
        return body[1:]
    return body


def loops_of(fnode):
    '''The for/while loops of a function in source order (nested functions excluded).'''
    out = []

    def visit(n):
        for c in ast.iter_child_nodes(n):
            if isinstance(c, (ast.FunctionDef, ast.AsyncFunctionDef, ast.Lambda, ast.ClassDef)):
                continue
            if isinstance(c, (ast.For, ast.AsyncFor, ast.While)):
                out.append(c)
            visit(c)
    visit(fnode)
    out.sort(key=lambda n: (n.lineno, n.col_offset))
    return out


def loop_fingerprint(node):
    if isinstance(node, ast.While):
        return 'while ' + ast.unparse(node.test)
    t = node.target
    ts = ', '.join(ast.unparse(x) for x in t.elts) if isinstance(t, ast.Tuple) else ast.unparse(t)
    return 'for ' + ts + ' in ' + ast.unparse(node.iter)


def is_logger_call(node):
    '''self.logger.xxx(...) / logger.xxx(...) / logging.xxx(...)'''
    if not isinstance(node, ast.Call) or not isinstance(node.func, ast.Attribute):
        return False
    v = node.func.value
    if isinstance(v, ast.Attribute) and v.attr == 'logger':
        return True
    if isinstance(v, ast.Name) and v.id in ('logger', 'logging'):
        return True
    return False
