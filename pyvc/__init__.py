'''pyvc - a verification-condition generator for the Python subset used by electrumx.

The prover process never imports /repo: it reads the working-tree source with `ast`,
executes the functions under contract symbolically and discharges every obligation
with an SMT back end.  See /verif/DESIGN.md section 2.
'''
