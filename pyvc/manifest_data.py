'''Per-property metadata: used for the evidence files and to generate MANIFEST.json
(python3-vt -m pyvc.gen_manifest).'''
PROPS = {}
NOT_APPLICABLE = {}


def prop(pid, **kw):
    PROPS[pid] = kw


def na(pid, reason):
    NOT_APPLICABLE[pid] = reason


prop('C20', level='proof', design_ref='DESIGN.md section 6 (C20)',
     technique='deductive verification: VCs generated from the real source of Notifications against sidecar '
               'contracts (class invariant + ghost state), discharged by z3',
     text='Every call sequence of start/on_mempool/on_block is covered by induction over per-operation VCs: the class '
          'invariant "nothing handed over is lost", the agreed-heights precondition of every notify() call and the '
          'completeness postcondition are proved for all heights and sets (no bound).',
     note='Trusted: the contract of the notify() callback (observation point), Python dict/set semantics as encoded '
          '(DESIGN 2.2), heights reported by callers are >= 0.  Completeness after heights have fallen below a pending key '
          'fails and is listed as known finding KF-C20-1.',
     explanation='Class invariant (nothing handed over is lost), agreed-heights precondition of every notify() '
                 'call and completeness postcondition of on_mempool/on_block/start, proved for all call sequences '
                 'by per-operation VCs generated from the real source of Notifications.',
     not_decided=[], assumptions=['heights reported by the callers are >= 0 (daemon heights)'])

for _pid in ['C01', 'C02', 'C03', 'C04', 'C05', 'C07', 'C08', 'C09', 'C10', 'C11', 'C12', 'C13', 'C14', 'C15',
             'C16', 'C17', 'C18', 'C19']:
    na(_pid, 'contracts for this property are not yet built in this round (planned: DESIGN.md section 6); nothing is claimed')
na('C06', 'quantifies over cancellation instants of an asyncio task while worker-thread jobs keep running: not '
          'expressible as pre/postconditions of functions in a sequential or cooperative model (DESIGN.md section 6, C06)')
