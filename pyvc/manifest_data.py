'''Per-property metadata: used for the evidence files and to generate MANIFEST.json
(python3-vt -m pyvc.gen_manifest).'''
PROPS = {}
NOT_APPLICABLE = {}


def prop(pid, **kw):
    PROPS[pid] = kw


def na(pid, reason):
    NOT_APPLICABLE[pid] = reason


prop('C20', level='proof', design_ref='DESIGN.md section 6 (C20)',
     technique='deductive verification: VCs generated from the real source of Notifications against sidecar '
               'contracts (class invariant + ghost state), discharged by z3',
     text='Every call sequence of start/on_mempool/on_block is covered by induction over per-operation VCs: the class '
          'invariant "nothing handed over is lost", the agreed-heights precondition of every notify() call and the '
          'completeness postcondition are proved for all heights and sets (no bound).',
     note='Trusted: the contract of the notify() callback (observation point), Python dict/set semantics as encoded '
          '(DESIGN 2.2), heights reported by callers are >= 0.  Completeness after heights have fallen below a pending key '
          'fails and is listed as known finding KF-C20-1.',
     explanation='Class invariant (nothing handed over is lost), agreed-heights precondition of every notify() '
                 'call and completeness postcondition of on_mempool/on_block/start, proved for all call sequences '
                 'by per-operation VCs generated from the real source of Notifications.',
     not_decided=[], assumptions=['heights reported by the callers are >= 0 (daemon heights)'])

prop('C12', level='other', design_ref='DESIGN.md section 6 (C12)',
     technique='deductive verification: VCs from the real source of Merkle/MerkleCache against the Bitcoin merkle '
               'definition (spec functions mroot/foldp/nxt), loop invariants, explicit lemma instances, z3',
     text='branch_length, branch_and_root (classic and TSC), root, root_from_proof are proved equal to the definition for '
          'all list lengths, indices and lengths (no bound).',
     note='Trusted: definitions of the spec functions, induction principle (meta rule) for the listed lemmas, H/cat uninterpreted, '
          'Python list/int semantics as encoded (DESIGN 2.2).',
     explanation='Deductive part: branch_length, tree_depth, branch_and_root (classic + TSC), root, root_from_proof proved '
                 'against the definition for all inputs (loop invariants over (array,length) lists; every spec-function '
                 'fact is an explicit instance).  Level is "other" because level(), branch_and_root_from_level() and '
                 'MerkleCache are so far served by a bounded stand-in (exhaustive comparison with the definition), '
                 'labelled bounded and not counted in obligations/discharged.',
     bounded=[{'obligation': 'merkle.MerkleCache.bounded', 'driver': 'merkle.py',
               'what': 'Merkle.level, Merkle.branch_and_root_from_level and MerkleCache (initialise/extend/truncate in any '
                       'order) agree with the from-scratch definition',
               'bound': 'every list length 1..40 x every index x every depth_higher x both formats; 1320 random cache '
                        'operation sequences (init 1..33, up to 5 truncate/query operations, lengths <= 48)'}],
     not_decided=['Merkle.level / branch_and_root_from_level / MerkleCache are not yet under deductive contract'],
     assumptions=[])

prop('C16', level='proof', design_ref='DESIGN.md section 6 (C16)',
     technique='deductive verification: exception-escape and frame VCs generated from the real handlers with arguments '
               'ranging over a JSON datatype, z3',
     text='For every function under contract the set of exception classes that can escape is proved to be a subset of the '
          'protocol-error classes for all JSON argument values.',
     note='Trusted: contracts of int()/str()/bytes.fromhex/f-string formatting on JSON values (T-INT, T-STR, T-HEX), '
          'aiorpcx dispatch (T-RPCX).',
     explanation='Escape-set proofs over the JSON datatype J.',
     not_decided=['failures that need a concurrent reorg (schedules, not inputs)'], assumptions=[])

prop('C17', level='proof', design_ref='DESIGN.md section 6 (C17)',
     technique='deductive verification: VCs from the real handlers and SessionManager.limited_history against the size '
               'formulas of the statement, z3',
     text='The header-count formula (cap 2016, exact count, hex length) and the history limit (complete history or the '
          'too-large error, identically from cache; subscription dropped) are proved for all arguments, heights and MAX_SEND.',
     note='Trusted: DB.read_headers / DB.limited_history contracts (A-CALLEE, verified under C02/C04 when claimed there), '
          'cache coherence at entry is the class invariant (staleness after reorgs is C10).',
     explanation='Postconditions taken from the statement; hist_of is the full confirmed history.',
     not_decided=[], assumptions=[])

prop('C19', level='proof', design_ref='DESIGN.md section 6 (C19)',
     technique='deductive verification: VCs from the real Peer / PeerManager code; JSON feature dictionaries as datatype J; '
               'bucket cap by ghost witness maps; z3',
     text='Ports valid or absent and the is_public definition for every JSON feature dictionary; the advertised list '
          'contains only recent, good, public peers or own identities, at most two per external bucket, for all peer sets.',
     note='Trusted: ipaddress predicates and is_valid_hostname uninterpreted (T-IP), random.shuffle an arbitrary permutation '
          '(T-RANDOM), time.time arbitrary.',
     explanation='Per-function contracts on Peer helpers and PeerManager.',
     not_decided=[], assumptions=[])

prop('C18', level='proof', design_ref='DESIGN.md section 6 (C18)',
     technique='deductive verification: VCs from the real Daemon._send / failover / processors with a ghost fault script; '
               'loop invariant + decreases; exact reals for the back-off; z3',
     text='For every finite fault sequence followed by availability _send returns the genuine answer of the first '
          'non-fault attempt, raises a genuine RPC error at once, fails over round-robin, and terminates.',
     note='Trusted: T-HTTP (an attempt returns the reply or raises a listed class), T-DAEMON (reply shapes), floats as reals.',
     explanation='Ghost fault script; termination by decreases q - p.',
     not_decided=['termination of the three `while True ... sleep` retry loops outside a finite fault script'],
     assumptions=[])

prop('C15', level='other', design_ref='DESIGN.md section 6 (C15)',
     technique='deductive verification of the undo-window functions of DB (VCs from real source, z3) + bounded native '
               'scenarios for the clause inside advance_block/backup_block',
     text='min_undo_height, undo_key, read_undo_info and clear_excess_undo_info are proved against the window formula for '
          'all heights and limits; the undo clause of advance_block and the reorg itself are exercised by a bounded stand-in.',
     note='Trusted: T-LDB (iterator order, atomic batches), T-STRUCT (be32 order-preserving). Bounded: generated chains, '
          'limits 1..50, restarts, non-decreasing daemon heights.',
     explanation='Window formula proved on the DB functions; advance_block clause bounded (labelled).',
     bounded=[{'obligation': 'index.c15.bounded', 'driver': 'index_scenario.py', 'request': {'mode': 'c15', 'rounds': 12},
               'what': 'undo rows exist for every block of the window after catch-up (all sync phases, restarts), older '
                       'rows are removed on start-up, a reorg of depth = limit succeeds',
               'bound': '12 (thorough: 72) generated chains of 6-12 blocks, reorg limits {1,2,3,5,50}, random flush '
                        'schedules, one restart, non-decreasing daemon heights'},
              {'obligation': 'index.c15.falling-daemon-height', 'driver': 'index_scenario.py',
               'request': {'mode': 'c15-falling', 'rounds': 3}, 'expect_kf': 'KF-C15-1',
               'what': 'probe of the listed known finding: falling daemon-height trajectories', 'bound': '3 scenarios'}],
     not_decided=['falling daemon-height trajectories (listed finding KF-C15-1); the composition over all sync phases is the bounded stand-in - '
                  'the undo clause of advance_block, flush_undo_infos, the undo rows in flush_utxo_db, read_undo_info, clear_excess_undo_info and '
                  'the undo consumption of backup_block are proved'],
     assumptions=[])

prop('C13', level='other', design_ref='DESIGN.md section 6 (C13)',
     technique='deductive verification of the transaction readers / packers (VCs over byte sequences, z3 + cvc5) + '
               'bounded native comparison for block streaming',
     text='Readers: exact escape sets, cursor arithmetic, "a successful parse consumed only bytes that exist"; varint '
          'round trip over the real functions.  Block streaming for every chunk size is a bounded stand-in.',
     note='Trusted: T-STRUCT. Bounded: 10 block shapes x ~20 chunk sizes x both directions; transactions on every varint boundary '
          'x every truncation point.',
     explanation='Deductive part on electrumx/lib/tx.py; OnDiskBlock.iter_txs/_chunk_offsets/iter_txs_reversed bounded (labelled).',
     bounded=[{'obligation': 'tx.parse.bounded', 'driver': 'tx_parse.py', 'request': {'part': 'tx'},
               'what': 'parse/serialize/hash identity and failure on every truncation',
               'bound': '58 transactions on all varint width boundaries (counts 0..253, script lengths 0..65537), every truncation point'},
              {'obligation': 'tx.OnDiskBlock.bounded', 'driver': 'tx_parse.py', 'request': {'part': 'block'},
               'what': 'iter_txs yields the transactions in order, iter_txs_reversed the exact reverse',
               'bound': '10 block shapes (1..300 transactions, transactions larger than a chunk at every position) x ~20 chunk '
                        'sizes from the varint length to larger than the block x both directions'},
              {'obligation': 'tx.OnDiskBlock.small-chunk', 'driver': 'tx_parse.py', 'request': {'part': 'small-chunk'},
               'expect_kf': 'KF-C13-1', 'what': 'probe of the listed known finding', 'bound': '1 case'}],
     not_decided=['OnDiskBlock generators are not under deductive contract'], assumptions=[])

prop('C02', level='other', design_ref='DESIGN.md section 6 (C02)',
     technique='deductive verification of the history read path (VCs from real source, z3/cvc5) + bounded native '
               'comparison of whole-index histories with an independent oracle',
     text='get_txnums (limit semantics), chunks, resolve_limit, fs_tx_hash (true height by bisect), fs_tx_hashes_at_blockheight '
          'are proved; the write path (add_unflushed/flush through advance_block) is exercised by the bounded stand-in.',
     note='Trusted: T-LDB, T-FILE, T-STRUCT; layout invariant "history rows are arrays of 5-byte numbers". Bounded: generated chains '
          'x random flush schedules x restart.',
     explanation='Read path deductive; write path bounded (labelled).',
     bounded=[{'obligation': 'index.c02.bounded', 'driver': 'index_scenario.py', 'request': {'mode': 'c02', 'rounds': 10},
               'what': 'every script hash history (all limits) and tx-number -> (hash, height) equal the clean index',
               'bound': '10 (thorough: 60) generated chains of 3-13 blocks x random history-only/full flush schedule x chunk '
                        'sizes {90, 200, 1000, 25M} x restart'}],
     not_decided=['which script hashes advance_block lists for a transaction is not under deductive contract (its tx numbering is); '
                  'add_unflushed, flush, get_txnums, fs_tx_hash, fs_tx_hashes_at_blockheight are'],
     assumptions=[])

prop('C10', level='other', design_ref='DESIGN.md section 6 (C10)',
     technique='deductive verification of the cache-invalidation components (VCs from real source, z3); composition over '
               'schedules written in DESIGN.md, not machine-checked',
     text='_notify_sessions evicts every touched script hash from the history cache regardless of the height; limited_history '
          'cache coherence (C17).  Quiescence over all interleavings is not decided by contracts.',
     note='Components only: the end-to-end statement quantifies over schedules of five tasks (A-FIFO assumed).',
     explanation='Component obligations; composition written, not mechanised.',
     not_decided=['whole-system interleavings (the window between a reorganisation and the run of the reorg handler is assumed away: A-RELY-REORG)',
                  'retry loops of DB.limited_history / all_utxos (termination)'],
     assumptions=['A-FIFO: the task woken by backed_up_event runs before another block completes'])

prop('C14', level='other', design_ref='DESIGN.md section 6 (C14)',
     technique='deductive verification of the compaction batch discipline and start-up scrubbing (VCs from real source, '
               'z3/cvc5) + bounded native compaction scenarios on a real LevelDB',
     text='_flush_compaction (delete-before-put, state record, counter transitions), clear_excess, _cancel_compaction are proved; '
          'row re-chunking (_compact_hashX/_compact_prefix) and the whole tool run incl. kills are a bounded stand-in.',
     note='Trusted: T-LDB, T-STRUCT, write_state as a function of the counters. Bounded: generated index databases, row sizes '
          '{1,2,3,12500}, batch limits, kills between batches, abandon-then-index.',
     explanation='Batch discipline deductive; content preservation bounded (labelled); KF-C14-1 listed.',
     bounded=[{'obligation': 'index.c14.bounded', 'driver': 'index_scenario.py', 'request': {'mode': 'c14', 'rounds': 36},
               'what': 'every history identical before/after compaction (one go, batches, killed and resumed, abandoned then '
                       'indexing/undoing on top; every third scenario: compact, index, compact again, index)',
               'bound': '36 (thorough: 216) generated databases x row sizes {1,2,3,12500} x batch limits {1,30,200,8e6} x 6 modes; the tool that is '
                        'run is the real electrumx_compact_history.compact_history() of the tree under test (killed between batches / '
                        'before set_flush_count by the driver)'},
              {'obligation': 'index.c14.killed-before-set-flush-count', 'driver': 'index_scenario.py',
               'request': {'mode': 'c14-kf', 'rounds': 8}, 'expect_kf': 'KF-C14-1',
               'what': 'probe of the listed known finding: compaction completed, killed before set_flush_count, one-entry rows',
               'bound': '8 scenarios'}],
     not_decided=['_compact_hashX (re-chunking of one script hash into fixed-size rows) is not under deductive contract: its preconditions '
                  '(what a correct grouping hands to it) are proved in _compact_prefix, its effect is the bounded stand-in'],
     assumptions=[])

_IDX_NOTE = ('Trusted: T-LDB, T-FILE, T-STRUCT, T-BISECT. The whole-index statement (induction over advance_block / flush_dbs / '
             'backup_block) is NOT machine-checked yet: those functions are exercised by the bounded stand-in, labelled bounded.')
prop('C01', level='other', design_ref='DESIGN.md section 6 (C01)',
     technique='deductive verification of the component functions (activation rule, tx-number lookup; VCs from real source, z3/cvc5) '
               '+ bounded native comparison of the whole index with an independent oracle on a real LevelDB',
     text='is_unspendable_legacy/genesis equal the activation rule; fs_tx_hash returns the true height.  UTXO set, balances and '
          'counts for generated chains x flush schedules are compared with a clean index (bounded).',
     note=_IDX_NOTE, explanation='Components deductive; whole-index equality bounded (labelled).',
     bounded=[{'obligation': 'index.c01.bounded', 'driver': 'index_scenario.py', 'request': {'mode': 'c01', 'rounds': 12},
               'what': 'UTXOs, balances, counts, tip, chain size, headers, per-block tx hashes equal the clean index; restart',
               'bound': '12 (thorough: 72) generated chains of 3-13 blocks (same-block spends, OP_RETURN both sides of a lowered '
                        'activation height, zero values, empty/duplicate scripts) x random flush schedule x chunk sizes; every sixth '
                        'scenario: two flushed outputs sharing the 4-byte compressed hash and the index (birthday search), same '
                        'or different script, spent in either order, with restarts'}],
     not_decided=['the cache key / value layout written by advance_block and the h / u row layout written by flush_utxo_db are not under '
                  'deductive contract; the bookkeeping of advance_block (rule selection, counts), spend_utxo, the query side (read_utxos, '
                  'lookup_utxo, lookup_hashX, fs_tx_hash) and the one-commit discipline of flush_utxo_db are'], assumptions=[])
prop('C03', level='other', design_ref='DESIGN.md section 6 (C03)',
     technique='deductive verification of the reorg arithmetic/pointer functions + bounded native reorg scenarios with an '
               'independent oracle on a real LevelDB',
     text='backup_fs moves only the pointers; reorg range arithmetic.  Index equality after generated reorg histories is bounded.',
     note=_IDX_NOTE, explanation='Components deductive; whole-index equality bounded (labelled).',
     bounded=[{'obligation': 'index.c03.bounded', 'driver': 'index_scenario.py', 'request': {'mode': 'c03', 'rounds': 10},
               'what': 'after 1-3 reorgs of depth 1-3 (forced/natural, back to back) every observable equals a fresh index; every script hash changed by an undone block is in the touched set',
               'bound': '10 (thorough: 60) generated chains of 6-13 blocks x random flush schedules'}],
     not_decided=['that backup_block visits inputs in exactly the reverse of the spend order and which cache entries result, and which rows '
                  'History.backup visits, are not under deductive contract; the fork-point search (_calc_reorg_range, _reorg_hashes), '
                  'reorg_chain, the bookkeeping of backup_block, History.backup (one atomic batch, per-row facts), the commit order of '
                  'flush_backup, backup_fs and MerkleCache.truncate are'], assumptions=[])
prop('C04', level='other', design_ref='DESIGN.md section 6 (C04)',
     technique='deductive verification of the commit discipline components (History.flush fresh ids, clear_excess scrubbing; VCs '
               'from real source, z3/cvc5) + bounded native crash injection at every durable write on a real LevelDB',
     text='clear_excess removes exactly the rows above the committed flush count (C14 contract); crash points of generated flushes '
          'incl. torn file writes are enumerated natively (bounded).',
     note=_IDX_NOTE, explanation='Components deductive; crash-point enumeration bounded (labelled).',
     bounded=[{'obligation': 'index.c04.bounded', 'driver': 'index_scenario.py', 'request': {'mode': 'c04', 'rounds': 16},
               'what': 'die at each durable write of a flush (3 file writes incl. torn prefixes, history batch, UTXO batch, second '
                       'state put), reopen, compare with the clean index at the reported height, resume, compare at the end',
               'bound': '16 (thorough: 96) generated chains x 8 crash points x history-only/full flush'}],
     not_decided=['the restart path (read_utxo_state, _read_tx_counts, History.open_db) is not under deductive contract: recovery after each '
                  'crash point is the bounded stand-in; the write order of flush_dbs, flush_fs, History.flush, flush_utxo_db (one atomic '
                  'commit each, state record inside) and clear_excess are proved'], assumptions=[])
prop('C05', level='other', design_ref='DESIGN.md section 6 (C05)',
     technique='bounded native crash injection inside flush_backup on a real LevelDB + the deductive contracts of the recovery path '
               '(clear_excess, C14/C15 functions); the failing cut is a listed known finding',
     text='Cuts between the history rollback and the UTXO rollback x three continuations are enumerated natively; the recovery path '
          'functions are under contract.',
     note=_IDX_NOTE, explanation='Bounded (labelled); KF-C05-1 listed.',
     bounded=[{'obligation': 'index.c05.bounded', 'driver': 'index_scenario.py', 'request': {'mode': 'c05', 'rounds': 14},
               'what': 'die between/after the two commits of flush_backup; restart; catch up on the new branch / the old branch / '
                       'forced reorg of an unchanged chain; compare with a fresh index',
               'bound': '14 (thorough: 84) generated chains x 2 cut points x 3 continuations'},
              {'obligation': 'index.c05.crash-between-history-and-utxo-rollback', 'driver': 'index_scenario.py',
               'request': {'mode': 'c05-kf', 'rounds': 4}, 'expect_kf': 'KF-C05-1',
               'what': 'probe of the listed known finding: crash between the two commits, daemon on the old branch / forced reorg',
               'bound': '4 scenarios'}],
     not_decided=['recovery after a crash inside flush_backup is not a deductive obligation (the commit order of flush_backup is)'], assumptions=[])

_MP_NOTE = ('Trusted: daemon data well-formed (T-DAEMON). Exactness of the view (C08) and behaviour under races (C09) are decided by the '
            'bounded stand-in only; the deductive part is the index-consistency invariant and the no-raise/frame contracts.')
prop('C08', level='other', design_ref='DESIGN.md section 6 (C08)',
     technique='deductive verification of the mempool index-consistency invariant on the query functions (VCs from real source, z3) '
               '+ bounded native comparison with an independent mempool model',
     text='Under the invariant the query functions cannot raise and modify nothing; exact balances, summaries, UTXOs, potential '
          'spends and touched completeness are compared with a model over generated mempool histories (bounded).',
     note=_MP_NOTE, explanation='Components deductive; exactness bounded (labelled).',
     bounded=[{'obligation': 'mempool.c08.bounded', 'driver': 'mempool_native.py', 'request': {'mode': 'c08', 'rounds': 40},
               'what': 'every observable of a synchronised mempool equals the model; touched set complete',
               'bound': '40 (thorough: 240) generated histories of 4-11 steps (arrivals, chains of 3-8, evictions, confirmations, '
                        'generation-like inputs, 8 scripts); every eighth history is one refresh of 260-640 new transactions '
                        '(more than one fetch batch of 200) containing 3-6 chains of 5-11 links'}],
     not_decided=['_accept_transactions / _process_mempool / _fetch_and_accept and the completeness of the query functions (nothing missing, '
                  'balances as sums) are not under deductive contract; that transaction_summaries and unordered_UTXOs report only what '
                  'the tracked transactions say (fee, positions, values, has-unconfirmed-inputs computed from the current set) is'], assumptions=[])
prop('C09', level='other', design_ref='DESIGN.md section 6 (C09)',
     technique='deductive verification of the index-consistency invariant (as C08) + bounded native race injection against an '
               'independent mempool model',
     text='Refreshes with transactions vanishing between listing and fetching and UTXO lookups missing never raise, never record a '
          'wrong input, keep the inverse index exact and converge on the next quiet refresh (bounded).',
     note=_MP_NOTE, explanation='Bounded (labelled) + invariant components.',
     bounded=[{'obligation': 'mempool.c09.bounded', 'driver': 'mempool_native.py', 'request': {'mode': 'c09', 'rounds': 40},
               'what': 'raced refreshes: no exception, no wrong input pair, inverse index exact, exact view after the next quiet refresh',
               'bound': '40 (thorough: 240) generated histories; each step raced with probability 1/2 (30% of fetches dropped, lookup '
                        'miss rate 0 / 0.3 / 1)'}],
     not_decided=['interference at the awaits of _refresh_hashes/_process_mempool/_fetch_and_accept not generated deductively',
                  'worker-thread preemption inside DB.lookup_utxos'], assumptions=[])

prop('C11', level='other', design_ref='DESIGN.md section 6 (C11)',
     technique='deductive verification of the proof mathematics (C12 Merkle core) and of the session-level range/position checks '
               '(VCs from real source, z3) + bounded native stand-ins for the cache paths and for requests racing a reorganisation',
     text='Branch/root/fold mathematics proved (C12 units); _merkle_proof refuses requests outside the chain; by-position/by-hash '
          'lookups refuse positions outside the block.  Cache paths and the reorg race are bounded; the race fails (KF-C11-1).',
     note='Trusted: header merkle root = root of the block tx hashes (A-VALID); _merkle_branch contract assumed (its cache path is the '
          'C12 bounded stand-in). Cooperative interleavings only.',
     explanation='Components deductive; cache + race bounded (labelled); KF-C11-1 listed.',
     bounded=[{'obligation': 'merkle.MerkleCache.bounded', 'driver': 'merkle.py',
               'what': 'level / branch_and_root_from_level / MerkleCache agree with the definition',
               'bound': 'list lengths 1..40 x every index x every depth_higher x both formats; 1320 cache operation sequences'},
              {'obligation': 'merkle.MerkleCache.race', 'driver': 'merkle_race.py', 'request': {'rounds': 10}, 'expect_kf': 'KF-C11-1',
               'what': 'header-proof request in flight while the chain is reorganised and the cache truncated: after settling every '
                       'proof must fold to the root of the current chain', 'bound': '10 generated race scenarios (probe of the known finding)'}],
     not_decided=['MerkleCache._extend_to / _level_for / branch_and_root under interference are not under deductive contract (listed finding '
                  'KF-C11-1 lives there)'],
     assumptions=[])

prop('C07', level='other', design_ref='DESIGN.md section 6 (C07)',
     technique='deductive verification of the per-component obligations of the notification path (VCs from real source, z3); the '
               'composition over all interleavings is written in DESIGN.md, not machine-checked',
     text='Notifications (C20), _notify_sessions (C10), _notify_inner, on_caught_up, subscription_address_status are under contract: '
          'no hand-over lost, block queryable before it is reported, every connected session handed the notification, every '
          'touched subscribed script hash notified, every tracked untouched one re-computed on a height change and notified if its '
          'status changed, the mempool-status map tracking exactly the script hashes with mempool transactions.',
     note='Components only; convergence over all interleavings of five tasks is not decided by contracts.',
     bounded=[{'obligation': 'session.notify.bounded', 'driver': 'notify_native.py', 'request': {'rounds': 300},
               'what': 'real ElectrumX sessions (1-3, sharing one touched set per notification as _notify_sessions does) against a '
                       'model of confirmed history + mempool summaries: after every notification round each client holds the '
                       'true status of every subscribed script hash (incl. status changes of untouched script hashes when a '
                       'mempool parent confirms) and the true tip',
               'bound': '300 (thorough: 1800) random histories of 3-9 steps (mempool add/evict, blocks, height-only) over 8 script hashes'},
              {'obligation': 'index.c07.touched', 'driver': 'index_scenario.py', 'request': {'mode': 'c03', 'rounds': 6},
               'what': 'the block processor reports as touched every script hash whose history an indexed or an undone block '
                       'changed (real BlockProcessor on generated chains and reorgs; the set is cleared before each block as '
                       'on_caught_up does)',
               'bound': '6 (thorough: 36) generated chains of 6-13 blocks with 1-3 reorgs of depth 1-3'}],
     explanation='Component obligations; composition written, not mechanised.',
     not_decided=['end-to-end convergence over schedules', 'status string formatting vs docs/protocol-basics.rst'], assumptions=[])

for _pid in []:
    na(_pid, 'contracts for this property are not yet built in this round (planned: DESIGN.md section 6); nothing is claimed')
na('C06', 'quantifies over cancellation instants of an asyncio task while worker-thread jobs keep running: not '
          'expressible as pre/postconditions of functions in a sequential or cooperative model (DESIGN.md section 6, C06)')
