import json
import os

from . import manifest_data as M

VERIF_DIR = os.path.dirname(os.path.dirname(os.path.abspath(__file__)))


def main():
    checks = []
    for pid in sorted(M.PROPS):
        p = M.PROPS[pid]
        checks.append({
            'property_id': pid,
            'quick_cmd': f'./verif check {pid} --tier quick',
            'thorough_cmd': f'./verif check {pid} --tier thorough',
            'evidence_file': f'/verif/evidence/{pid}.json',
            'replay_cmd_template': './verif replay {path}',
            'engine': 'pyvc',
            'level_claimed': {'category': p['level'], 'text': p['text'], 'design_ref': p.get('design_ref', 'DESIGN.md section 6')},
            'level_note': p['note'],
            'technique': p['technique'],
        })
    man = {
        'version': 1,
        'setup_cmd': 'true',
        'hooks': {'guard': 'ELECTRUMX_VERIF', 'enable': 'none needed: contracts are sidecars, /repo is read with ast and never edited',
                  'baseline_off_cmd': 'cd /repo && /venv/bin/python -m pytest -ra -q -p no:cacheprovider --timeout=900 --continue-on-collection-errors',
                  'source_commits': [], 'add_only': True},
        'engines': [{'name': 'pyvc', 'path': '/verif/pyvc', 'serves_properties': sorted(M.PROPS),
                     'kind_free_text': 'verification-condition generator for Python (ast -> z3) with sidecar contracts; '
                                       'native replay drivers under /verif/replay'}],
        'checks': checks,
        'not_applicable': [{'property_id': k, 'reason': v} for k, v in sorted(M.NOT_APPLICABLE.items()) if k not in M.PROPS],
        'notes': 'Exit codes of every check: 0 held, 1 violation, 2 undecided, 3 engine/contract error. '
                 'Known findings: /verif/known_findings.json.',
    }
    with open(os.path.join(VERIF_DIR, 'MANIFEST.json'), 'w') as f:
        json.dump(man, f, indent=1)
    print('MANIFEST.json written:', len(checks), 'checks,', len(man['not_applicable']), 'not applicable')


if __name__ == '__main__':
    main()
