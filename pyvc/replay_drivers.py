'''Which native replay driver serves which obligations.'''
from .replay import register_driver

register_driver('controller.Notifications.', 'notifications.py')
register_driver('merkle.', 'merkle.py')
for _f in ('scripthash_to_hashX', 'non_negative_integer', 'assert_boolean', 'assert_tx_hash', 'assert_raw_bytes'):
    register_driver('session.' + _f + '.', 'pycall.py')
for _f in ('protocol_tuple', 'protocol_version', 'version_string'):
    register_driver('util.' + _f + '.', 'pycall.py')
register_driver('session.ElectrumX.', 'session_handlers.py')
register_driver('peers.PeerManager.on_add_peer.', 'peers_add_peer.py')
register_driver('peer.Peer.', 'peers_subscribe.py')
register_driver('peers.PeerManager._get_recent_good_peers.', 'peers_subscribe.py')
register_driver('peers.PeerManager.on_peers_subscribe.', 'peers_subscribe.py')
register_driver('daemon.Daemon.', 'daemon_send.py')
register_driver('tx.', 'tx_parse.py')
register_driver('util.pack_var', 'tx_parse.py')
register_driver('harness.varint', 'tx_parse.py')
register_driver('history.History.get_txnums.', 'history_native.py')
register_driver('util.chunks.', 'history_native.py')
register_driver('util.resolve_limit.', 'history_native.py')
register_driver('session.SessionManager._notify_sessions.', 'sessionmgr_native.py')
register_driver('session.SessionManager.limited_history.', 'sessionmgr_native.py')
for _f in ('_flush_compaction', 'clear_excess', '_cancel_compaction', '_compact_hashX', '_compact_prefix', '_compact_history',
           'flush', 'backup', 'write_state'):
    register_driver('history.History.' + _f + '.', 'index_scenario.py')
register_driver('db.DB.', 'index_scenario.py')
register_driver('block_processor.BlockProcessor.', 'index_scenario.py')
register_driver('mempool.MemPool.', 'mempool_native.py')
register_driver('session.SessionManager.merkle_branch', 'session_handlers.py')
for _f in ('_notify_inner', 'notify', 'subscription_address_status', 'address_status', 'hashX_subscribe', 'send_notification'):
    register_driver('session.ElectrumX.' + _f + '.', 'notify_native.py')
register_driver('history.History.add_unflushed.', 'history_native.py')
