'''Which native replay driver serves which obligations.'''
from .replay import register_driver

register_driver('controller.Notifications.', 'notifications.py')
register_driver('merkle.', 'merkle.py')
