'''Semantics of Python's operators, builtin functions, container methods and the handful of
library calls the code under contract uses.  Everything here that stands for C code or a
third-party library is an *assumed* contract (DESIGN section 4, T-*); each use is recorded in
Interp.assumed and ends up in the evidence's trusted_base.
'''
import ast

import z3

from .values import *   # noqa
from .values import _dt
from .engine import (EngineError, PyRaise, PathEnd, VSlice, VRange, VDictItems, VKind, VEnv, VJ,
                     Frame, short_key)

# ---------------------------------------------------------------------------------------------
# str / bytes / float / JSON kinds

ByteSort = z3.BitVecSort(8)


class _KStr(Kind):
    name = 'Str'

    def sort(self):
        return z3.StringSort()

    def wrap(self, term, ip=None):
        return VStr(term)

    def unwrap(self, v):
        if isinstance(v, VStr):
            return v.t
        if isinstance(v, VConst) and isinstance(v.py, str):
            return z3.StringVal(v.py)
        raise TypeError(f'not a str: {v!r}')


class _KBytes(Kind):
    name = 'Bytes'

    def sort(self):
        return z3.SeqSort(ByteSort)

    def wrap(self, term, ip=None):
        return VBytes(term)

    def unwrap(self, v):
        if isinstance(v, VBytes):
            return v.t
        if isinstance(v, VConst) and isinstance(v.py, (bytes, bytearray)):
            return bytes_lit(v.py)
        raise TypeError(f'not bytes: {v!r}')


KStr, KBytes = _KStr(), _KBytes()


def bytes_lit(b):
    if len(b) == 0:
        return z3.Empty(z3.SeqSort(ByteSort))
    units = [z3.Unit(z3.BitVecVal(x, 8)) for x in b]
    return units[0] if len(units) == 1 else z3.Concat(*units)


class VStr(Value):
    kind = KStr

    def __init__(self, t):
        self.t = t

    def __repr__(self):
        return f'VStr({self.t})'


class VBytes(Value):
    kind = KBytes

    def __init__(self, t):
        self.t = t

    def __repr__(self):
        return 'VBytes(..)'


class VFloat(Value):
    '''A Python float: fk = 0 finite (value r), 1 +inf, 2 -inf, 3 nan.'''

    def __init__(self, fk, r):
        self.fk, self.r = fk, r


class VJList(Value):
    def __init__(self, ident):
        self.ident = ident


class VJDict(Value):
    def __init__(self, ident):
        self.ident = ident


class VReversed(Value):
    def __init__(self, v):
        self.v = v


class VStruct(Value):
    def __init__(self, fmt):
        self.fmt = fmt


class VOpaque(Value):
    '''An object the code only passes around (event, lock, logger, session, ...).'''

    def __init__(self, what):
        self.what = what

    def __repr__(self):
        return f'VOpaque({self.what})'


def J_sort():
    return _dt('J', [('JNull', []), ('JBool', [('jb', z3.BoolSort())]), ('JInt', [('ji', z3.IntSort())]),
                     ('JFloat', [('jfk', z3.IntSort()), ('jfr', z3.RealSort())]),
                     ('JStr', [('js', z3.StringSort())]), ('JList', [('jl', z3.IntSort())]),
                     ('JDict', [('jd', z3.IntSort())])])


class _KJ(Kind):
    name = 'J'

    def sort(self):
        return J_sort()

    def wrap(self, term, ip=None):
        return VJ(term)

    def unwrap(self, v):
        s = J_sort()
        if isinstance(v, VJ):
            return v.t
        if isinstance(v, VConst) and v.py is None:
            return s.JNull
        if isinstance(v, (VBool,)) or (isinstance(v, VConst) and isinstance(v.py, bool)):
            return s.JBool(bool_term(v))
        if is_intlike(v):
            return s.JInt(int_term(v))
        if isinstance(v, (VStr,)) or (isinstance(v, VConst) and isinstance(v.py, str)):
            return s.JStr(KStr.unwrap(v))
        if isinstance(v, VFloat):
            return s.JFloat(v.fk, v.r)
        if isinstance(v, VJList):
            return s.JList(v.ident)
        if isinstance(v, VJDict):
            return s.JDict(v.ident)
        if isinstance(v, VList) and z3.is_int_value(z3.simplify(v.n)) and z3.simplify(v.n).as_long() == 0:
            return s.JList(z3.IntVal(-1))        # [] (its length fact is asserted at the start of every path)
        raise TypeError(f'cannot store {v!r} as J')

    def fresh(self, ip, hint='j'):
        t = z3.Const(ip.fresh_name(hint), self.sort())
        s = self.sort()
        ip.assume(z3.Implies(s.is_JFloat(t), z3.And(s.jfk(t) >= 0, s.jfk(t) <= 3)))
        return VJ(t)


KJ = _KJ()

KIND_NAMES = {'Int': KInt, 'Bool': KBool, 'Real': KReal, 'Str': KStr, 'Bytes': KBytes, 'J': KJ}

_UF = {}


def UF(name, *sorts):
    if name not in _UF:
        _UF[name] = z3.Function(name, *sorts)
    return _UF[name]


def seq_len(t):
    '''Length of a bytes / str term as an uninterpreted function with the facts added where the term
    is built (concatenation, slicing, literals).  z3's own sequence length would force the solver to
    construct sequences of that length in every counter-model (e.g. 161280 hex digits).'''
    t = z3.simplify(t)
    if z3.is_string_value(t):
        return z3.IntVal(len(t.as_string()))
    n = concrete_seq_len(t)
    if n is not None:
        return z3.IntVal(n)
    if t.sort() == z3.StringSort():
        return UF('slen', t.sort(), z3.IntSort())(t)
    # bytes: the sequence theory's own length (key/value algebra of the index code needs it: slices of
    # concatenations); strings use an uninterpreted length, see above
    return z3.Length(t)


def concrete_seq_len(t):
    '''Length of a literal byte sequence (unit / concat of units / empty), else None.'''
    k = t.decl().kind()
    if k == z3.Z3_OP_SEQ_EMPTY:
        return 0
    if k == z3.Z3_OP_SEQ_UNIT:
        return 1
    if k == z3.Z3_OP_SEQ_CONCAT:
        tot = 0
        for c in t.children():
            n = concrete_seq_len(c)
            if n is None:
                return None
            tot += n
        return tot
    return None


def fresh_str(ip, hint='s'):
    return VStr(z3.Const(ip.fresh_name(hint), z3.StringSort()))


def fresh_bytes(ip, hint='b'):
    return VBytes(z3.Const(ip.fresh_name(hint), z3.SeqSort(ByteSort)))


# ---------------------------------------------------------------------------------------------
# resolve / truth

def resolve(ip, v):
    '''Turn lazily-shaped values (JSON arguments, optionals) into a value of a definite
    Python type, splitting the path.'''
    if isinstance(v, VJ):
        if v.res is not None:
            return v.res
        if ip.mode != 'code':
            return v
        s = J_sort()
        t = v.t
        if ip.branch(s.is_JNull(t)):
            r = VConst(None)
        elif ip.branch(s.is_JBool(t)):
            r = KBool.wrap(z3.simplify(s.jb(t)))
        elif ip.branch(s.is_JInt(t)):
            r = VInt(s.ji(t))
        elif ip.branch(s.is_JFloat(t)):
            r = VFloat(s.jfk(t), s.jfr(t))
        elif ip.branch(s.is_JStr(t)):
            r = VStr(s.js(t))
        elif ip.branch(s.is_JList(t)):
            r = VJList(s.jl(t))
        else:
            ip.assume(s.is_JDict(t))
            r = VJDict(s.jd(t))
        v.res = r
        return r
    if isinstance(v, VOptTerm):
        if v.res is not None:
            return resolve(ip, v.res) if isinstance(v.res, VJ) else v.res
        if ip.mode == 'code':
            v.res = v.kind.wrap(v.t, ip)
            return resolve(ip, v.res) if isinstance(v.res, VJ) else v.res
    return v


def truth(ip, v):
    '''Python truthiness as a bool or a z3 Bool term.'''
    v = resolve(ip, v)
    if isinstance(v, VConst):
        return bool(v.py)
    if isinstance(v, VBool):
        return v.t
    if isinstance(v, VInt):
        return v.t != 0
    if isinstance(v, VReal):
        return v.t != 0
    if isinstance(v, VList):
        t = z3.simplify(v.n > 0)
        return t
    if isinstance(v, VTuple):
        return len(v.items) > 0
    if isinstance(v, VSet):
        if v.ek is None:
            return False
        x = z3.Const(ip.fresh_name('w'), v.ek.sort())
        return z3.Exists([x], z3.Select(v.dom, x))
    if isinstance(v, VDict):
        if v.rec is not None:
            return len(v.rec) > 0        # a record dictionary (JSON object with known keys) is truthy iff it has keys
        if v.kk is None:
            return False
        x = z3.Const(ip.fresh_name('w'), v.kk.sort())
        return z3.Exists([x], z3.Select(v.dom, x))
    if isinstance(v, VStr):
        return seq_len(v.t) > 0
    if isinstance(v, VBytes):
        return seq_len(v.t) > 0
    if isinstance(v, VFloat):
        return z3.Not(z3.And(v.fk == 0, v.r == 0))
    if isinstance(v, (VJList,)):
        return UF('jlist_len', z3.IntSort(), z3.IntSort())(v.ident) > 0
    if isinstance(v, (VJDict,)):
        return UF('jdict_len', z3.IntSort(), z3.IntSort())(v.ident) > 0
    if isinstance(v, (VObj, VFunc, VClass, VOpaque, VExc, VStruct)):
        return True
    if isinstance(v, VOptTerm):
        raise EngineError('truthiness of an unresolved optional in specification mode')
    if isinstance(v, VU):
        if v.kind.lenf:
            return UF(v.kind.lenf, v.kind.sort(), z3.IntSort())(v.t) > 0
        return True       # an object without __bool__/__len__
    if isinstance(v, VJ):
        return j_truthy_term(v.t)
    raise EngineError(f'truthiness of {v!r}')


def j_truthy_term(t):
    '''Python truthiness of a JSON value, as a term.'''
    s_ = J_sort()
    return z3.Or(z3.And(s_.is_JBool(t), s_.jb(t)), z3.And(s_.is_JInt(t), s_.ji(t) != 0),
                 z3.And(s_.is_JFloat(t), z3.Not(z3.And(s_.jfk(t) == 0, s_.jfr(t) == 0))),
                 z3.And(s_.is_JStr(t), UF('slen', z3.StringSort(), z3.IntSort())(s_.js(t)) > 0),
                 z3.And(s_.is_JList(t), UF('jlist_len', z3.IntSort(), z3.IntSort())(s_.jl(t)) > 0),
                 z3.And(s_.is_JDict(t), UF('jdict_len', z3.IntSort(), z3.IntSort())(s_.jd(t)) > 0))


def j_num_eq(t, n):
    '''Python `==` between a JSON value (term) and an integer term: bool is an int, a finite float equals the integer
    of the same value.'''
    s_ = J_sort()
    return z3.Or(z3.And(s_.is_JInt(t), s_.ji(t) == n), z3.And(s_.is_JBool(t), z3.If(s_.jb(t), 1, 0) == n),
                 z3.And(s_.is_JFloat(t), s_.jfk(t) == 0, s_.jfr(t) == z3.ToReal(n)))


# ---------------------------------------------------------------------------------------------
# arithmetic

def py_floordiv(a, b):
    return z3.If(b > 0, a / b, (-a) / (-b))


def py_mod(a, b):
    return a - b * py_floordiv(a, b)


def binop(ip, op, a, b, node):
    a, b = resolve(ip, a), resolve(ip, b)
    if ip.mode == 'spec':
        # specification expressions are total: an operation on the value of an absent optional (`some(x)` where x is
        # None on this path - always under a guard that excludes the case) denotes an unspecified value of the other
        # operand's kind instead of raising
        na = isinstance(a, VConst) and a.py is None
        nb = isinstance(b, VConst) and b.py is None
        if na != nb:
            other = b if na else a
            try:
                return kind_of(other).fresh(ip, 'undef')
            except TypeError:
                pass
    if isinstance(a, VConst) and isinstance(b, VConst):
        return const_binop(ip, op, a.py, b.py, node)
    if is_intlike(a) and is_intlike(b):
        return int_binop(ip, op, a, b, node)
    if (is_intlike(a) or isinstance(a, VReal) or is_reallike(a)) and \
       (is_intlike(b) or isinstance(b, VReal) or is_reallike(b)):
        x, y = real_term(a), real_term(b)
        if isinstance(op, ast.Add):
            return VReal(x + y)
        if isinstance(op, ast.Sub):
            return VReal(x - y)
        if isinstance(op, ast.Mult):
            return VReal(x * y)
        if isinstance(op, ast.Div):
            if ip.mode == 'code' and ip.branch(y == 0):
                raise PyRaise(VExc('ZeroDivisionError'), node)
            return VReal(x / y)
        raise EngineError(f'unsupported real operator {type(op).__name__}')
    if isinstance(a, VU) or isinstance(b, VU):
        k = a.kind if isinstance(a, VU) else b.kind
        sym = OPSYM.get(type(op))
        if sym in k.ops:
            f = UF(k.ops[sym], k.sort(), k.sort(), k.sort())
            return VU(f(k.unwrap(a), k.unwrap(b)), k)
        raise EngineError(f'operator {sym} on opaque kind {k.name}')
    if isinstance(a, (VBytes,)) or isinstance(b, VBytes) or \
            (isinstance(a, VConst) and isinstance(a.py, bytes)) or (isinstance(b, VConst) and isinstance(b.py, bytes)):
        if isinstance(op, ast.Add):
            try:
                ta, tb = KBytes.unwrap(a), KBytes.unwrap(b)
            except TypeError:
                raise PyRaise(VExc('TypeError'), node)       # bytes + None, bytes + int, ...
            r = z3.Concat(ta, tb)
            ip.assume(seq_len(r) == seq_len(ta) + seq_len(tb))
            return VBytes(r)
        if isinstance(op, ast.Mult):
            raise EngineError('bytes repetition with symbolic operand')
    if isinstance(a, VStr) or isinstance(b, VStr):
        if isinstance(op, ast.Add):
            ta, tb = KStr.unwrap(a), KStr.unwrap(b)
            r = z3.Concat(ta, tb)
            ip.assume(seq_len(r) == seq_len(ta) + seq_len(tb))
            return VStr(r)
        if isinstance(op, ast.Mod):
            ip.assumed.add('T-STR')
            return fresh_str(ip, 'fmt')
    if isinstance(a, VConst) and isinstance(a.py, str) and isinstance(op, ast.Mod):
        ip.assumed.add('T-STR')
        return fresh_str(ip, 'fmt')
    if isinstance(a, VTuple) and isinstance(b, VTuple) and isinstance(op, ast.Add):
        return VTuple(a.items + b.items)
    if isinstance(a, VList) and isinstance(b, (VList, VTuple)) and isinstance(op, ast.Add):
        if isinstance(b, VTuple):
            b = tuple_to_list(b, a.ek)
        return list_concat(ip, a, b)
    if isinstance(a, VSet) and isinstance(b, VSet):
        unify_set_kinds(a, b)
        if a.ek is None:
            return VSet(None, None)
        if isinstance(op, ast.BitOr):
            return VSet(z3.SetUnion(a.dom, b.dom), a.ek)
        if isinstance(op, ast.BitAnd):
            return VSet(z3.SetIntersect(a.dom, b.dom), a.ek)
        if isinstance(op, ast.Sub):
            return VSet(z3.SetDifference(a.dom, b.dom), a.ek)
    raise EngineError(f'unsupported operands for {type(op).__name__}: {a!r}, {b!r} '
                      f'(line {getattr(node, "lineno", "?")})')


OPSYM = {ast.Add: '+', ast.Sub: '-', ast.Mult: '*', ast.BitOr: '|', ast.BitAnd: '&', ast.BitXor: '^',
         ast.Mod: '%', ast.FloorDiv: '//', ast.LShift: '<<', ast.RShift: '>>'}


def const_binop(ip, op, x, y, node):
    import operator
    ops = {ast.Add: operator.add, ast.Sub: operator.sub, ast.Mult: operator.mul,
           ast.FloorDiv: operator.floordiv, ast.Mod: operator.mod, ast.Pow: operator.pow,
           ast.LShift: operator.lshift, ast.RShift: operator.rshift, ast.BitAnd: operator.and_,
           ast.BitOr: operator.or_, ast.BitXor: operator.xor, ast.Div: operator.truediv}
    f = ops.get(type(op))
    if f is None:
        raise EngineError(f'unsupported constant operator {type(op).__name__}')
    try:
        r = f(x, y)
    except ZeroDivisionError:
        raise PyRaise(VExc('ZeroDivisionError'), node)
    except TypeError:
        raise PyRaise(VExc('TypeError'), node)
    except ValueError:
        raise PyRaise(VExc('ValueError'), node)
    if isinstance(r, (list, dict, set)):
        raise EngineError('constant operator producing a mutable container')
    return VConst(r)


def int_binop(ip, op, a, b, node):
    x, y = int_term(a), int_term(b)
    cb = b.py if isinstance(b, VConst) else None
    ca = a.py if isinstance(a, VConst) else None
    if isinstance(op, ast.Add):
        return KInt.wrap(z3.simplify(x + y))
    if isinstance(op, ast.Sub):
        return KInt.wrap(z3.simplify(x - y))
    if isinstance(op, ast.Mult):
        return KInt.wrap(z3.simplify(x * y))
    if isinstance(op, (ast.FloorDiv, ast.Mod)):
        if cb is None:
            ip.raise_if(y == 0, 'ZeroDivisionError', node)
            q = py_floordiv(x, y)
        else:
            if cb == 0:
                raise PyRaise(VExc('ZeroDivisionError'), node)
            q = x / y if cb > 0 else (-x) / z3.IntVal(-cb)
        if isinstance(op, ast.FloorDiv):
            return KInt.wrap(z3.simplify(q))
        if cb is not None and cb > 0:
            return KInt.wrap(z3.simplify(x % y))
        return KInt.wrap(z3.simplify(x - y * q))
    if isinstance(op, ast.Div):
        if ip.mode == 'code' and cb is None and ip.branch(y == 0):
            raise PyRaise(VExc('ZeroDivisionError'), node)
        return VReal(z3.ToReal(x) / z3.ToReal(y))
    if isinstance(op, ast.RShift):
        return KInt.wrap(z3.simplify(x / ip.pow2(y)))      # floor division by 2^y (y >= 0 is the caller's fact)
    if isinstance(op, ast.LShift):
        return KInt.wrap(z3.simplify(x * ip.pow2(y)))
    if isinstance(op, ast.BitAnd):
        if cb is not None and cb >= 0 and (cb + 1) & cb == 0:
            return KInt.wrap(z3.simplify(x % (cb + 1)))
        if ca is not None and ca >= 0 and (ca + 1) & ca == 0:
            return KInt.wrap(z3.simplify(y % (ca + 1)))
    if isinstance(op, ast.BitXor) and cb == 1:
        return KInt.wrap(z3.simplify(z3.If(x % 2 == 0, x + 1, x - 1)))
    if isinstance(op, ast.BitOr) and cb == 1:
        return KInt.wrap(z3.simplify(z3.If(x % 2 == 0, x + 1, x)))
    if isinstance(op, ast.Pow):
        if ca == 2:
            return KInt.wrap(ip.pow2(y))
        if cb == 2:
            return KInt.wrap(x * x)
    raise EngineError(f'unsupported integer operator {type(op).__name__} with these operands '
                      f'(line {getattr(node, "lineno", "?")})')


def unify_set_kinds(a, b):
    if a.ek is None and b.ek is not None:
        a.ek = b.ek
        a.dom = z3.K(b.ek.sort(), z3.BoolVal(False))
    if b.ek is None and a.ek is not None:
        b.ek = a.ek
        b.dom = z3.K(a.ek.sort(), z3.BoolVal(False))


def def_array(ip, j, body, hint='arr'):
    '''A fresh array constant A with  forall j. A[j] == body(j)  (pattern A[j]).  Used instead of
    z3 lambdas so that list terms can appear inside quantifier patterns.'''
    A = z3.Const(ip.fresh_name(hint), z3.ArraySort(j.sort(), body.sort()))
    ip.assume(z3.ForAll([j], z3.Select(A, j) == body, patterns=[z3.Select(A, j)]))
    return A


def list_concat(ip, a, b):
    if a.ek is None:
        return VList(b.arr, b.n, b.ek)
    if b.ek is None:
        return VList(a.arr, a.n, a.ek)
    j = z3.Int(ip.fresh_name('j'))
    arr = def_array(ip, j, z3.If(j < a.n, z3.Select(a.arr, j), z3.Select(b.arr, j - a.n)), 'cat')
    return VList(arr, z3.simplify(a.n + b.n), a.ek)


# ---------------------------------------------------------------------------------------------
# comparison

def eq_term(ip, a, b):
    '''a == b as a bool / z3 term (Python semantics across types: unequal types compare
    unequal, bool is an int).'''
    a, b = resolve(ip, a), resolve(ip, b)
    if isinstance(a, VJ) or isinstance(b, VJ):      # specification mode / element of a comprehension
        if ip.mode == 'quant':
            j, o = (a, b) if isinstance(a, VJ) else (b, a)
            if is_intlike(o):
                return j_num_eq(j.t, int_term(o))
            if not isinstance(o, (VJ, VStr)) and not (isinstance(o, VConst) and (o.py is None or isinstance(o.py, str))):
                raise EngineError('comparison of a JSON element with a non-scalar inside a comprehension')
        return KJ.unwrap(a) == KJ.unwrap(b)
    if isinstance(a, VConst) and isinstance(b, VConst):
        return a.py == b.py
    if isinstance(a, VOptTerm) or isinstance(b, VOptTerm):
        k = a.kind if isinstance(a, VOptTerm) else b.kind
        return k.unwrap(a) == k.unwrap(b)
    none_a = isinstance(a, VConst) and a.py is None
    none_b = isinstance(b, VConst) and b.py is None
    if none_a or none_b:
        return False
    if is_intlike(a) and is_intlike(b):
        return z3.simplify(int_term(a) == int_term(b))
    if (is_intlike(a) or is_reallike(a) or isinstance(a, VReal)) and \
            (is_intlike(b) or is_reallike(b) or isinstance(b, VReal)):
        return real_term(a) == real_term(b)
    if isinstance(a, VFloat) or isinstance(b, VFloat):
        f, o = (a, b) if isinstance(a, VFloat) else (b, a)
        if isinstance(o, VFloat):
            return z3.And(f.fk == o.fk, f.fk != 3, z3.Implies(f.fk == 0, f.r == o.r))
        if is_intlike(o) or isinstance(o, VReal):
            return z3.And(f.fk == 0, f.r == real_term(o))
        return False
    if isinstance(a, (VStr,)) or isinstance(b, VStr):
        try:
            return KStr.unwrap(a) == KStr.unwrap(b)
        except TypeError:
            return False
    if isinstance(a, VBytes) or isinstance(b, VBytes):
        try:
            return KBytes.unwrap(a) == KBytes.unwrap(b)
        except TypeError:
            return False
    if isinstance(a, VU) or isinstance(b, VU):
        k = a.kind if isinstance(a, VU) else b.kind
        try:
            return k.unwrap(a) == k.unwrap(b)
        except TypeError:
            return False
    if isinstance(a, VTuple) and isinstance(b, VTuple):
        if len(a.items) != len(b.items):
            return False
        ts = [eq_term(ip, x, y) for x, y in zip(a.items, b.items)]
        if any(t is False for t in ts):
            return False
        ts = [t for t in ts if t is not True]
        return z3.And(*ts) if ts else True
    if isinstance(a, VList) and isinstance(b, VList):
        if a.ek is None or b.ek is None:
            return z3.simplify(a.n == b.n)
        j = z3.Int(ip.fresh_name('j'))
        return z3.And(a.n == b.n, z3.ForAll([j], z3.Implies(z3.And(0 <= j, j < a.n),
                                                            z3.Select(a.arr, j) == z3.Select(b.arr, j))))
    if isinstance(a, VSet) and isinstance(b, VSet):
        unify_set_kinds(a, b)
        if a.ek is None:
            return True
        return a.dom == b.dom
    if isinstance(a, VDict) and isinstance(b, VDict):
        if a.kk is None or b.kk is None:
            raise EngineError('equality with an empty dict literal')
        x = z3.Const(ip.fresh_name('k'), a.kk.sort())
        return z3.And(a.dom == b.dom, z3.ForAll([x], z3.Implies(z3.Select(a.dom, x),
                                                                z3.Select(a.map, x) == z3.Select(b.map, x))))
    if isinstance(a, VObj) and isinstance(b, VObj):
        return a is b
    if isinstance(a, VClass) and isinstance(b, VClass):
        return a.name == b.name
    if isinstance(a, VExc) or isinstance(b, VExc):
        return a is b
    simple = (VConst, VInt, VBool, VStr, VBytes, VTuple, VList, VFloat, VJList, VJDict, VSet, VDict)
    if isinstance(a, simple) and isinstance(b, simple) and type(a) != type(b):
        return False        # values of different Python types (beyond the numeric tower) are unequal
    raise EngineError(f'equality between {a!r} and {b!r}')


def compare(ip, op, a, b, node):
    def mk(t):
        if isinstance(t, bool):
            return VConst(t)
        return KBool.wrap(z3.simplify(t) if ip.mode == 'code' else t)

    if isinstance(op, ast.Eq):
        return mk(eq_term(ip, a, b))
    if isinstance(op, ast.NotEq):
        t = eq_term(ip, a, b)
        return mk((not t) if isinstance(t, bool) else z3.Not(t))
    if isinstance(op, (ast.Is, ast.IsNot)):
        a2, b2 = resolve(ip, a), resolve(ip, b)
        if isinstance(b2, VConst) and b2.py is None or isinstance(a2, VConst) and a2.py is None:
            o = a2 if isinstance(b2, VConst) and b2.py is None else b2
            if isinstance(o, VOptTerm):
                t = o.kind.sort().recognizer(0)(o.t)
            elif isinstance(o, VJ):
                t = J_sort().is_JNull(o.t)
            else:
                t = isinstance(o, VConst) and o.py is None
        elif isinstance(a2, VConst) and isinstance(b2, VConst) and isinstance(a2.py, bool) and isinstance(b2.py, bool):
            t = a2.py is b2.py
        elif isinstance(a2, (VBool,)) or isinstance(b2, VBool):
            if isinstance(a2, (VBool, VConst)) and isinstance(b2, (VBool, VConst)) and \
                    all(not isinstance(x, VConst) or isinstance(x.py, bool) for x in (a2, b2)):
                t = bool_term(a2) == bool_term(b2)
            else:
                t = False
        elif isinstance(a2, VObj) or isinstance(b2, VObj):
            t = a2 is b2
        else:
            raise EngineError(f'`is` between {a2!r} and {b2!r}')
        if isinstance(op, ast.IsNot):
            t = (not t) if isinstance(t, bool) else z3.Not(t)
        return mk(t)
    if isinstance(op, (ast.In, ast.NotIn)):
        t = contains(ip, b, a, node)
        if isinstance(op, ast.NotIn):
            t = (not t) if isinstance(t, bool) else z3.Not(t)
        return mk(t)
    # ordering
    a, b = resolve(ip, a), resolve(ip, b)
    if ip.mode != 'code':
        # specification mode is total: an optional stands for its payload
        if isinstance(a, VOptTerm):
            a = a.kind.inner.wrap(a.kind.sort().accessor(1, 0)(a.t), None)
        if isinstance(b, VOptTerm):
            b = b.kind.inner.wrap(b.kind.sort().accessor(1, 0)(b.t), None)
    if isinstance(a, VConst) and isinstance(b, VConst):
        import operator
        f = {ast.Lt: operator.lt, ast.LtE: operator.le, ast.Gt: operator.gt, ast.GtE: operator.ge}[type(op)]
        try:
            return VConst(f(a.py, b.py))
        except TypeError:
            raise PyRaise(VExc('TypeError'), node)
    if is_intlike(a) and is_intlike(b):
        x, y = int_term(a), int_term(b)
    elif (is_intlike(a) or is_reallike(a) or isinstance(a, VReal)) and \
            (is_intlike(b) or is_reallike(b) or isinstance(b, VReal)):
        x, y = real_term(a), real_term(b)
    elif isinstance(a, VTuple) and isinstance(b, VTuple):
        return mk(tuple_order(ip, op, a, b, node))
    elif isinstance(a, (VTuple, VList)) and isinstance(b, (VTuple, VList)):
        ta = isinstance(a, VTuple) or bool(a.ghost.get('tuple'))
        tb = isinstance(b, VTuple) or bool(b.ghost.get('tuple'))
        if ta != tb:
            if ip.mode == 'code':
                raise PyRaise(VExc('TypeError'), node)      # tuple vs list
            raise EngineError('ordering between a tuple and a list')
        return mk(seq_order(ip, op, a, b, node))
    elif isinstance(a, VFloat) or isinstance(b, VFloat):
        return mk(float_order(ip, op, a, b, node))
    else:
        none_or_mixed = (VConst, VStr, VBytes, VList, VJList, VJDict, VInt, VBool, VTuple, VDict, VSet)
        if isinstance(a, none_or_mixed) and isinstance(b, none_or_mixed) and ip.mode == 'code':
            sa, sb = isinstance(a, VStr) or (isinstance(a, VConst) and isinstance(a.py, str)), \
                isinstance(b, VStr) or (isinstance(b, VConst) and isinstance(b.py, str))
            if sa and sb:
                lt = UF('str_lt', z3.StringSort(), z3.StringSort(), z3.BoolSort())
                x, y = KStr.unwrap(a), KStr.unwrap(b)
                t = {ast.Lt: lt(x, y), ast.LtE: z3.Or(lt(x, y), x == y), ast.Gt: lt(y, x),
                     ast.GtE: z3.Or(lt(y, x), x == y)}[type(op)]
                return mk(t)
            raise PyRaise(VExc('TypeError'), node)      # '<' not supported between these types
        raise EngineError(f'ordering between {a!r} and {b!r}')
    t = {ast.Lt: x < y, ast.LtE: x <= y, ast.Gt: x > y, ast.GtE: x >= y}[type(op)]
    return mk(t)


def float_order(ip, op, a, b, node):
    def parts(v):
        if isinstance(v, VFloat):
            return v.fk, v.r
        if is_intlike(v) or isinstance(v, VReal) or is_reallike(v):
            return z3.IntVal(0), real_term(v)
        raise PyRaise(VExc('TypeError'), node)
    (ka, ra), (kb, rb) = parts(a), parts(b)
    # total order on the extended reals; any comparison with nan is False
    lt = z3.Or(z3.And(ka == 0, kb == 0, ra < rb), z3.And(ka == 2, kb != 2), z3.And(kb == 1, ka != 1))
    eq = z3.And(ka == kb, z3.Implies(ka == 0, ra == rb))
    gt = z3.Or(z3.And(ka == 0, kb == 0, ra > rb), z3.And(kb == 2, ka != 2), z3.And(ka == 1, kb != 1))
    nonan = z3.And(ka != 3, kb != 3)
    t = {ast.Lt: lt, ast.LtE: z3.Or(lt, eq), ast.Gt: gt, ast.GtE: z3.Or(gt, eq)}[type(op)]
    return z3.And(nonan, t)


def seq_order(ip, op, a, b, node):
    '''Lexicographic order between integer sequences, at least one of symbolic length.'''
    strict = isinstance(op, (ast.Lt, ast.Gt))
    if isinstance(op, (ast.Gt, ast.GtE)):
        a, b = b, a
    # a < b (or <=)
    if isinstance(a, VTuple) or isinstance(b, VTuple):
        swap = isinstance(a, VTuple)
        t, l = (a, b) if swap else (b, a)        # t concrete tuple, l symbolic list
        if l.ek is None:
            n_l = 0
        if l.ek not in (None, KInt):
            raise EngineError('sequence ordering over non-integers')
        k = len(t.items)
        ts = [int_term(resolve(ip, x)) for x in t.items]
        # l < t  and  l == t  as terms
        lt = z3.BoolVal(False)       # after position k: l is longer or equal -> not less
        eq = l.n == k
        for i in reversed(range(k)):
            li = z3.Select(l.arr, i) if l.ek is not None else z3.IntVal(0)
            lt = z3.If(l.n <= i, z3.BoolVal(True), z3.Or(li < ts[i], z3.And(li == ts[i], lt)))
            eq = z3.And(eq, li == ts[i]) if l.ek is not None else eq
        if not swap:      # a = l, b = t
            return lt if strict else z3.Or(lt, eq)
        # a = t, b = l:  t < l  <=>  not (l < t) and not eq
        gt = z3.And(z3.Not(lt), z3.Not(eq))
        return gt if strict else z3.Or(gt, eq)
    f = UF('lex_lt', KList(KInt).sort(), KList(KInt).sort(), z3.BoolSort())
    if a.ek not in (None, KInt) or b.ek not in (None, KInt):
        raise EngineError('sequence ordering over non-integers')
    ta, tb = KList(KInt).unwrap(a), KList(KInt).unwrap(b)
    e = eq_term(ip, a, b)
    e = z3.BoolVal(e) if isinstance(e, bool) else e
    return f(ta, tb) if strict else z3.Or(f(ta, tb), e)


def tuple_order(ip, op, a, b, node):
    '''Lexicographic order on tuples of ints (protocol version tuples).'''
    strict = isinstance(op, (ast.Lt, ast.Gt))
    if isinstance(op, (ast.Gt, ast.GtE)):
        a, b = b, a
    # a < b  (or <=)
    n = min(len(a.items), len(b.items))
    res = (len(a.items) < len(b.items)) if strict else (len(a.items) <= len(b.items))
    res = z3.BoolVal(res)
    for i in reversed(range(n)):
        x, y = resolve(ip, a.items[i]), resolve(ip, b.items[i])
        if not (is_intlike(x) and is_intlike(y)):
            raise EngineError('tuple ordering over non-integers')
        xi, yi = int_term(x), int_term(y)
        res = z3.Or(xi < yi, z3.And(xi == yi, res))
    return z3.simplify(res)


def contains(ip, cont, x, node):
    cont = resolve(ip, cont)
    if isinstance(cont, VJ):
        s_ = J_sort()
        xv = resolve(ip, x)
        if is_str(xv):
            if ip.mode == 'quant':
                ip.raise_if(z3.Not(z3.Or(s_.is_JDict(cont.t), s_.is_JStr(cont.t), s_.is_JList(cont.t))), 'TypeError', node)
                if not z3.is_false(z3.simplify(z3.Or(s_.is_JStr(cont.t), s_.is_JList(cont.t)))):
                    ip.assume(z3.Not(z3.Or(s_.is_JStr(cont.t), s_.is_JList(cont.t))))     # see A-JSHAPE
                    ip.assumed.add('A-JSHAPE: `in` on a JSON element inside a comprehension is taken on an object or a non-container')
            return z3.And(s_.is_JDict(cont.t),
                          UF('jdict_has', z3.IntSort(), z3.StringSort(), z3.BoolSort())(s_.jd(cont.t), KStr.unwrap(xv)))
        raise EngineError('membership of a non-string in a JSON term outside code mode')
    if isinstance(cont, (VSet, VDict)) and ip.mode == 'code':
        xv = resolve(ip, x)
        if isinstance(xv, (VJList, VJDict, VList, VDict, VSet)):
            raise PyRaise(VExc('TypeError'), node)      # unhashable operand of a hash-based membership test
    if isinstance(cont, VSet):
        if cont.ek is None:
            return False
        try:
            return z3.Select(cont.dom, cont.ek.unwrap(resolve(ip, x)))
        except TypeError:
            return False
    if isinstance(cont, VDict):
        if cont.rec is not None:
            xv = resolve(ip, x)
            if is_rec_key(xv):
                return xv.py in cont.rec
            raise EngineError('membership in a record dictionary with a symbolic key')
        if cont.kk is None:
            return False
        try:
            return z3.Select(cont.dom, cont.kk.unwrap(resolve(ip, x)))
        except TypeError:
            return False
    if isinstance(cont, VDictItems) and cont.what == 'keys':
        return contains(ip, cont.d, x, node)
    if isinstance(cont, VTuple):
        ts = [eq_term(ip, x, y) for y in cont.items]
        if any(t is True for t in ts):
            return True
        ts = [t for t in ts if t is not False]
        return z3.Or(*ts) if ts else False
    if isinstance(cont, VList):
        if cont.ek is None:
            return False
        j = z3.Int(ip.fresh_name('j'))
        try:
            xt = cont.ek.unwrap(resolve(ip, x))
        except TypeError:
            return False
        if 'enum_of' in cont.ghost:
            return z3.Select(cont.ghost['enum_of'], xt)
        return z3.Exists([j], z3.And(0 <= j, j < cont.n, z3.Select(cont.arr, j) == xt))
    if isinstance(cont, VRange):
        xv = resolve(ip, x)
        if not is_intlike(xv):
            return False
        if not (isinstance(cont.step, VConst) and cont.step.py == 1):
            raise EngineError('membership in a stepped range')
        xi = int_term(xv)
        return z3.And(int_term(cont.start) <= xi, xi < int_term(cont.stop))
    if isinstance(cont, VJDict):
        xv = resolve(ip, x)
        if isinstance(xv, (VStr,)) or (isinstance(xv, VConst) and isinstance(xv.py, str)):
            return UF('jdict_has', z3.IntSort(), z3.StringSort(), z3.BoolSort())(cont.ident, KStr.unwrap(xv))
        return False
    if isinstance(cont, (VStr,)) or (isinstance(cont, VConst) and isinstance(cont.py, str)):
        xv = resolve(ip, x)
        if not (isinstance(xv, VStr) or (isinstance(xv, VConst) and isinstance(xv.py, str))):
            if ip.mode == 'code':
                raise PyRaise(VExc('TypeError'), node)
            return False
        return z3.Contains(KStr.unwrap(cont), KStr.unwrap(xv))
    if isinstance(cont, VConst) and cont.py is None or isinstance(cont, (VInt, VBool, VFloat)):
        raise PyRaise(VExc('TypeError'), node)
    raise EngineError(f'membership test in {cont!r}')


# ---------------------------------------------------------------------------------------------
# items

def norm_index(ip, i, n, node, what='list'):
    '''Python index normalisation with IndexError on out of range. i: value, n: length term.'''
    i = resolve(ip, i)
    if not is_intlike(i):
        if ip.mode == 'code':
            raise PyRaise(VExc('TypeError'), node)
        raise EngineError(f'non-integer index {i!r}')
    it = int_term(i)
    if ip.mode == 'spec':
        # specification indexing is plain selection (negative constants count from the end)
        if isinstance(i, VConst) and i.py < 0:
            return z3.simplify(n + it)
        return it
    if isinstance(i, VConst):
        idx = it if i.py >= 0 else z3.simplify(n + it)
        ok = z3.simplify(z3.And(idx >= 0, idx < n))
    else:
        idx = z3.If(it < 0, it + n, it)
        ok = z3.And(idx >= 0, idx < n)
    ip.raise_if(z3.Not(ok), 'IndexError', node)
    return z3.simplify(idx)


def slice_bounds(ip, sl, n):
    '''Clamped (start, stop) terms of a step-1 slice on a sequence of length n.'''
    if sl.step is not None and not (isinstance(sl.step, VConst) and sl.step.py in (1, None)):
        raise EngineError('slice with a step')

    def clamp(v, default):
        if v is None or (isinstance(v, VConst) and v.py is None):
            return default
        v = resolve(ip, v)
        if not is_intlike(v):
            raise EngineError(f'slice bound {v!r}')
        t = int_term(v)
        if isinstance(v, VConst):
            t = t if v.py >= 0 else n + t
            return z3.simplify(z3.If(t < 0, 0, z3.If(t > n, n, t)))
        t = z3.If(t < 0, t + n, t)
        return z3.If(t < 0, 0, z3.If(t > n, n, t))
    lo = clamp(sl.lo, z3.IntVal(0))
    hi = clamp(sl.hi, n)
    return z3.simplify(lo), z3.simplify(hi)


def get_item(ip, obj, idx, node):
    obj = resolve(ip, obj)
    if isinstance(obj, VJ):
        # specification mode (total) or an arbitrary element of a comprehension (may-raise conditions collected)
        s_ = J_sort()
        key = resolve(ip, idx)
        if is_str(key):
            kt = KStr.unwrap(key)
            ip.raise_if(z3.Not(z3.Or(s_.is_JDict(obj.t), s_.is_JStr(obj.t), s_.is_JList(obj.t))), 'TypeError', node)
            ip.raise_if(z3.Or(s_.is_JStr(obj.t), s_.is_JList(obj.t)), 'TypeError', node)
            ip.raise_if(z3.Not(UF('jdict_has', z3.IntSort(), z3.StringSort(), z3.BoolSort())(s_.jd(obj.t), kt)), 'KeyError', node)
            return VJ(UF('jdict_get', z3.IntSort(), z3.StringSort(), J_sort())(s_.jd(obj.t), kt))
        if is_intlike(key) and ip.mode == 'spec':
            return VJ(UF('jlist_item', z3.IntSort(), z3.IntSort(), J_sort())(s_.jl(obj.t), int_term(key)))
        raise EngineError('subscript of a JSON term with this key outside code mode')
    if isinstance(obj, VList):
        if isinstance(idx, VSlice):
            if obj.ek is None:
                return VList(None, z3.IntVal(0), None)
            lo, hi = slice_bounds(ip, idx, obj.n)
            j = z3.Int(ip.fresh_name('j'))
            if z3.is_int_value(lo) and lo.as_long() == 0:
                arr = obj.arr
            else:
                arr = def_array(ip, j, z3.Select(obj.arr, j + lo), 'slice')
            return VList(arr, z3.simplify(z3.If(hi > lo, hi - lo, 0)), obj.ek)
        if obj.ek is None:
            raise PyRaise(VExc('IndexError'), node)
        i = norm_index(ip, idx, obj.n, node)
        v = obj.ek.wrap(z3.Select(obj.arr, i), ip)
        link(ip, v, obj, ('list', i))
        return v
    if isinstance(obj, VTuple):
        if isinstance(idx, VSlice):
            lo = idx.lo.py if isinstance(idx.lo, VConst) else None
            hi = idx.hi.py if isinstance(idx.hi, VConst) else None
            if (idx.lo is not None and not isinstance(idx.lo, VConst)) or \
                    (idx.hi is not None and not isinstance(idx.hi, VConst)):
                raise EngineError('symbolic slice of a tuple')
            return VTuple(obj.items[lo:hi])
        i = resolve(ip, idx)
        if isinstance(i, VConst) and isinstance(i.py, int):
            try:
                return obj.items[i.py]
            except IndexError:
                raise PyRaise(VExc('IndexError'), node)
        if is_intlike(i) and obj.items:
            it = norm_index(ip, i, z3.IntVal(len(obj.items)), node)
            res = obj.items[-1]
            for k in reversed(range(len(obj.items) - 1)):
                res = ip.ite(it == k, obj.items[k], res)
            return res
        raise EngineError(f'tuple index {i!r}')
    if isinstance(obj, VDict):
        if obj.rec is not None:
            key = resolve(ip, idx)
            if is_rec_key(key):
                if key.py in obj.rec:
                    return obj.rec[key.py]
                raise PyRaise(VExc('KeyError'), node)
            raise EngineError('record dictionary indexed with a symbolic key')
        if obj.kk is None:
            raise PyRaise(VExc('KeyError'), node)
        key = resolve(ip, idx)
        try:
            kt = obj.kk.unwrap(key)
        except TypeError:
            if ip.mode == 'code':
                raise PyRaise(VExc('KeyError'), node)
            raise
        if ip.mode == 'code':
            if not ip.branch(z3.Select(obj.dom, kt)):
                if obj.default is not None:
                    dv = obj.default(ip)
                    dict_store(ip, obj, kt, dv)
                    v = obj.vk.wrap(z3.Select(obj.map, kt), ip)
                    link(ip, v, obj, ('dict', kt))
                    return v
                raise PyRaise(VExc('KeyError'), node)
        elif ip.mode == 'quant':
            ip.raise_if(z3.Not(z3.Select(obj.dom, kt)), 'KeyError', node)
        v = obj.vk.wrap(z3.Select(obj.map, kt), ip)
        link(ip, v, obj, ('dict', kt))
        return v
    if isinstance(obj, VBytes) or (isinstance(obj, VConst) and isinstance(obj.py, (bytes, bytearray))):
        t = KBytes.unwrap(obj)
        n = seq_len(t)
        if isinstance(idx, VSlice):
            lo, hi = slice_bounds(ip, idx, n)
            r = z3.SubSeq(t, lo, z3.If(hi > lo, hi - lo, 0))
            ip.assume(seq_len(r) == z3.If(hi > lo, hi - lo, 0))
            return VBytes(r)
        i = norm_index(ip, idx, n, node)
        return VInt(z3.BV2Int(t[i]))
    if isinstance(obj, VStr) or (isinstance(obj, VConst) and isinstance(obj.py, str)):
        t = KStr.unwrap(obj)
        n = seq_len(t)
        if isinstance(idx, VSlice):
            lo, hi = slice_bounds(ip, idx, n)
            r = z3.SubString(t, lo, z3.If(hi > lo, hi - lo, 0))
            ip.assume(seq_len(r) == z3.If(hi > lo, hi - lo, 0))
            return VStr(r)
        i = norm_index(ip, idx, n, node)
        return VStr(z3.SubString(t, i, 1))
    if isinstance(obj, VU):
        k = obj.kind
        if isinstance(idx, VSlice) and k.slicef:
            n = UF(k.lenf, k.sort(), z3.IntSort())(obj.t)
            lo, hi = slice_bounds(ip, idx, n)
            return VU(UF(k.slicef, k.sort(), z3.IntSort(), z3.IntSort(), k.sort())(obj.t, lo, hi), k)
        raise EngineError(f'indexing opaque {k.name}')
    if isinstance(obj, VJDict):
        key = resolve(ip, idx)
        if not (isinstance(key, VStr) or (isinstance(key, VConst) and isinstance(key.py, str))):
            raise PyRaise(VExc('KeyError'), node)
        kt = KStr.unwrap(key)
        has = UF('jdict_has', z3.IntSort(), z3.StringSort(), z3.BoolSort())(obj.ident, kt)
        if ip.mode == 'code' and not ip.branch(has):
            raise PyRaise(VExc('KeyError'), node)
        return VJ(UF('jdict_get', z3.IntSort(), z3.StringSort(), J_sort())(obj.ident, kt))
    if isinstance(obj, VJList):
        n = UF('jlist_len', z3.IntSort(), z3.IntSort())(obj.ident)
        ip.assume(n >= 0)
        if isinstance(idx, VSlice):
            raise EngineError('slice of a JSON list')
        i = norm_index(ip, idx, n, node)
        return VJ(UF('jlist_item', z3.IntSort(), z3.IntSort(), J_sort())(obj.ident, i))
    if isinstance(obj, VConst) and obj.py is None or isinstance(obj, (VInt, VBool, VFloat)):
        raise PyRaise(VExc('TypeError'), node)
    raise EngineError(f'subscript of {obj!r} at line {getattr(node, "lineno", "?")}')


def link(ip, v, parent, slot):
    '''Make a container obtained from a slot of another container a view of that slot.'''
    if not isinstance(v, (VList, VSet, VDict, VBytes)):
        return

    def wb(child, parent=parent, slot=slot):
        ip.touch(parent)
        term = child.kind.unwrap(child)
        if slot[0] == 'dict':
            parent.map = z3.Store(parent.map, slot[1], term)
        else:
            parent.arr = z3.Store(parent.arr, slot[1], term)
        parent._writeback()
    v.parent = wb


def dict_store(ip, d, kt, v):
    ip.touch(d)
    d.map = z3.Store(d.map, kt, d.vk.unwrap(v))
    d.dom = z3.Store(d.dom, kt, z3.BoolVal(True))
    d._writeback()


def is_rec_key(k):
    return isinstance(k, VConst) and isinstance(k.py, (str, int)) and not isinstance(k.py, bool)


def set_item(ip, obj, idx, v, node):
    obj = resolve(ip, obj)
    if isinstance(obj, VDict):
        key = resolve(ip, idx)
        if obj.rec is not None or (obj.kk is None and isinstance(key, VConst) and isinstance(key.py, str)):
            if not is_rec_key(key):
                raise EngineError('record dictionary with a symbolic key')
            if obj.rec is None:
                obj.rec = {}
            ip.touch(obj)
            obj.rec[key.py] = v
            return
        v = resolve(ip, v)
        if obj.kk is None:
            obj.ensure_kinds(kind_of(key), kind_of(v))
        dict_store(ip, obj, obj.kk.unwrap(key), v)
        return
    if isinstance(obj, VList):
        if isinstance(idx, VSlice):
            v = resolve(ip, v)
            if isinstance(v, VTuple):
                v = tuple_to_list(v, obj.ek)
            if not isinstance(v, VList):
                raise EngineError('slice assignment from non-list')
            if obj.ek is None:
                if v.ek is None:
                    return
                obj.ek = v.ek
                obj.arr = empty_array(v.ek)
            lo, hi = slice_bounds(ip, idx, obj.n)
            hi = z3.If(hi > lo, hi, lo)
            ip.touch(obj)
            j = z3.Int(ip.fresh_name('j'))
            vn = v.n
            varr = v.arr if v.ek is not None else obj.arr
            old_arr, old_n = obj.arr, obj.n
            obj.arr = def_array(ip, j, z3.If(j < lo, z3.Select(old_arr, j),
                                             z3.If(j < lo + vn, z3.Select(varr, j - lo),
                                                   z3.Select(old_arr, j - vn + hi))), 'splice')
            obj.n = z3.simplify(old_n - (hi - lo) + vn)
            obj.ghost = {}
            obj._writeback()
            return
        i = norm_index(ip, idx, obj.n, node)
        ip.touch(obj)
        obj.arr = z3.Store(obj.arr, i, obj.ek.unwrap(resolve(ip, v)))
        obj.ghost = {}
        obj._writeback()
        return
    raise EngineError(f'item store on {obj!r}')


def del_item(ip, obj, idx, node):
    obj = resolve(ip, obj)
    if isinstance(obj, VDict):
        if obj.kk is None:
            raise PyRaise(VExc('KeyError'), node)
        kt = obj.kk.unwrap(resolve(ip, idx))
        if not ip.branch(z3.Select(obj.dom, kt)):
            raise PyRaise(VExc('KeyError'), node)
        ip.touch(obj)
        obj.dom = z3.Store(obj.dom, kt, z3.BoolVal(False))
        obj._writeback()
        return
    if isinstance(obj, VList) and isinstance(idx, VSlice):
        set_item(ip, obj, idx, VList(None, z3.IntVal(0), None), node)
        return
    raise EngineError(f'del on {obj!r}')


def list_append(ip, lst, v):
    v = resolve(ip, v)
    if lst.ek is None:
        lst.ek = kind_of(v)
        lst.arr = empty_array(lst.ek)
    ip.touch(lst)
    lst.arr = z3.Store(lst.arr, lst.n, lst.ek.unwrap(v))
    lst.n = z3.simplify(lst.n + 1)
    lst.ghost = {}
    lst._writeback()


def inplace_extend(ip, cur, rhs, node):
    rhs = resolve(ip, rhs)
    if isinstance(cur, VList):
        if isinstance(rhs, VTuple):
            rhs = tuple_to_list(rhs, cur.ek)
        if not isinstance(rhs, VList):
            raise EngineError(f'list += {rhs!r}')
        r = list_concat(ip, cur, rhs)
        ip.touch(cur)
        cur.arr, cur.n, cur.ek = r.arr, r.n, r.ek
        cur.ghost = {}
        cur._writeback()
        return
    if isinstance(cur, VSet):
        set_update(ip, cur, rhs)
        return
    raise EngineError('in-place operator on this container')


def as_set(ip, v):
    '''View any iterable of hashable elements as (membership array, elem kind).'''
    v = resolve(ip, v)
    if isinstance(v, VSet):
        return v.dom, v.ek
    if isinstance(v, VDict):
        return v.dom, v.kk
    if isinstance(v, VDictItems) and v.what == 'keys':
        return v.d.dom, v.d.kk
    if isinstance(v, VList):
        if v.ek is None:
            return None, None
        if 'enum_of' in v.ghost:
            return v.ghost['enum_of'], v.ek
        # the set of the list's elements as a named array with a Skolem witness: S[x] <=> x == arr[w(x)], 0 <= w(x) < n
        # (a lambda with an existential body is z3-only syntax and defeats pattern-based instantiation)
        x = z3.Const(ip.fresh_name('x'), v.ek.sort())
        j = z3.Int(ip.fresh_name('j'))
        S = z3.Const(ip.fresh_name('Sl'), z3.ArraySort(v.ek.sort(), z3.BoolSort()))
        w = z3.Function(ip.fresh_name('wit'), v.ek.sort(), z3.IntSort())
        ip.assume(z3.ForAll([j], z3.Implies(z3.And(0 <= j, j < v.n), z3.Select(S, z3.Select(v.arr, j))),
                            patterns=[z3.Select(v.arr, j)]))
        ip.assume(z3.ForAll([x], z3.Implies(z3.Select(S, x), z3.And(0 <= w(x), w(x) < v.n, z3.Select(v.arr, w(x)) == x)),
                            patterns=[z3.Select(S, x)]))
        return S, v.ek
    if isinstance(v, VTuple):
        if not v.items:
            return None, None
        ek = kind_of(v.items[0])
        dom = z3.K(ek.sort(), z3.BoolVal(False))
        for x in v.items:
            dom = z3.Store(dom, ek.unwrap(x), z3.BoolVal(True))
        return dom, ek
    raise EngineError(f'cannot view {v!r} as a set')


def set_update(ip, s, other):
    dom, ek = as_set(ip, other)
    if ek is None:
        return
    if s.ek is None:
        s.ek = ek
        s.dom = z3.K(ek.sort(), z3.BoolVal(False))
    ip.touch(s)
    s.dom = z3.SetUnion(s.dom, dom)
    s._writeback()


# ---------------------------------------------------------------------------------------------
# names

BUILTIN_FUNCS = {'len', 'isinstance', 'range', 'max', 'min', 'sum', 'any', 'all', 'sorted',
                 'reversed', 'enumerate', 'zip', 'abs', 'divmod', 'repr', 'hex', 'print', 'getattr',
                 'hasattr', 'id', 'iter', 'next', 'round', 'callable', 'ord', 'chr', 'super', 'issubclass'}
BUILTIN_CLASSES = {'int', 'set', 'list', 'dict', 'tuple', 'bytes', 'bytearray', 'str', 'bool', 'float', 'object',
                   'memoryview', 'frozenset', 'type'}
EXC_NAMES = set(EXC_PARENT)


def builtin_name(ip, name):
    if name in BUILTIN_FUNCS:
        return VFunc('builtin', name)
    if name in BUILTIN_CLASSES:
        return VClass(name)
    if name in EXC_NAMES:
        return VClass(name, 'exc')
    if name == 'True':
        return VConst(True)
    if name == 'False':
        return VConst(False)
    if name == 'None':
        return VConst(None)
    return None


LIBRARY = {
    ('math', 'ceil'): ('builtin', 'math.ceil'), ('math', 'log'): ('builtin', 'math.log'),
    ('math', 'floor'): ('builtin', 'math.floor'), ('math', 'log2'): ('builtin', 'math.log2'),
    ('struct', 'Struct'): ('class', 'Struct'), ('struct', 'error'): ('exc', 'struct.error'),
    ('collections', 'defaultdict'): ('class', 'defaultdict'), ('collections', 'namedtuple'): ('builtin', 'namedtuple'),
    ('array', 'array'): ('class', 'arrayQ'),
    ('asyncio', 'Event'): ('class', 'Event'), ('aiorpcx', 'Event'): ('class', 'Event'),
    ('asyncio', 'Lock'): ('class', 'Lock'), ('asyncio', 'sleep'): ('builtin', 'sleep'),
    ('aiorpcx', 'sleep'): ('builtin', 'sleep'), ('asyncio', 'CancelledError'): ('exc', 'CancelledError'),
    ('aiorpcx', 'RPCError'): ('exc', 'RPCError'), ('aiorpcx', 'ReplyAndDisconnect'): ('exc', 'ReplyAndDisconnect'),
    ('aiorpcx', 'TaskTimeout'): ('exc', 'TaskTimeout'), ('aiorpcx', 'ProtocolError'): ('exc', 'ProtocolError'),
    ('aiorpcx', 'ExcessiveSessionCostError'): ('exc', 'ExcessiveSessionCostError'),
    ('aiorpcx', 'TaskGroup'): ('class', 'TaskGroup'), ('aiorpcx', 'run_in_thread'): ('builtin', 'run_in_thread'),
    ('aiorpcx', 'timeout_after'): ('builtin', 'timeout_after'), ('aiorpcx', 'ignore_after'): ('builtin', 'ignore_after'),
    ('aiorpcx', 'CancelledError'): ('exc', 'CancelledError'),
    ('bisect', 'bisect_left'): ('builtin', 'bisect_left'), ('bisect', 'bisect_right'): ('builtin', 'bisect_right'),
    ('functools', 'partial'): ('builtin', 'partial'),
    ('time', 'time'): ('builtin', 'time.time'), ('time', 'monotonic'): ('builtin', 'time.time'),

    ('random', 'shuffle'): ('builtin', 'random.shuffle'),
    ('socket', 'gaierror'): ('exc', 'socket.gaierror'),
    ('ipaddress', 'ip_address'): ('builtin', 'ip_address'),
    ('ipaddress', 'IPv4Address'): ('class', 'IPv4Address'), ('ipaddress', 'IPv6Address'): ('class', 'IPv6Address'),
    ('ipaddress', 'IPv4Network'): ('class', 'IPv4Network'), ('ipaddress', 'IPv6Network'): ('class', 'IPv6Network'),
    ('itertools', 'count'): ('builtin', 'itertools.count'), ('itertools', 'chain'): ('builtin', 'itertools.chain'),
    ('asyncio', 'get_event_loop'): ('builtin', 'get_event_loop'),
    ('asyncio', 'TimeoutError'): ('exc', 'asyncio.TimeoutError'), ('aiohttp', 'ClientError'): ('exc', 'aiohttp.ClientError'),
    ('aiohttp', 'ClientConnectionError'): ('exc', 'aiohttp.ClientConnectionError'),
    ('aiohttp', 'ServerDisconnectedError'): ('exc', 'aiohttp.ServerDisconnectedError'),
    ('aiohttp', 'ClientPayloadError'): ('exc', 'aiohttp.ClientPayloadError'), ('random', 'randrange'): ('builtin', 'random.randrange'),
}


def library_name(ip, module, name):
    ent = LIBRARY.get((module, name))
    if ent is None:
        if (module + '.' + name) in ip.reg.builtin_contracts:
            return VFunc('builtin', module + '.' + name)
        return VOpaque(f'{module}.{name}')
    if ent[0] == 'builtin':
        return VFunc('builtin', ent[1])
    if ent[0] == 'exc':
        return VClass(ent[1], 'exc')
    return VClass(ent[1])


def module_attr(ip, mod, attr):
    m2 = ip.repo.module_by_dotted(mod.name)
    if m2 is not None:
        v = ip.lookup_global(attr, m2)
        if v is None:
            sub = ip.repo.module_by_dotted(mod.name + '.' + attr)
            if sub is not None:
                return VModule(mod.name + '.' + attr)
            raise EngineError(f'{mod.name}.{attr} not found')
        return v
    return library_name(ip, mod.name, attr)


def module_const_override(ip, mod, name):
    return None


def repo_class(ip, mod, name):
    bases = mod.class_bases.get(name, [])
    key = f'{mod.relpath}:{name}'
    if any(b in EXC_NAMES or b.endswith('Error') or b == 'Exception' for b in bases):
        if name not in EXC_PARENT:
            raise EngineError(f'exception class {name} missing from the hierarchy table')
        return VClass(name, 'exc')
    for b in bases:
        if b.startswith('namedtuple('):
            return VClass(key, 'namedtuple')
    decos = [ast.unparse(d) for d in mod.classes[name].decorator_list]
    if any(d.startswith('attr.s') for d in decos):
        return VClass(key, 'namedtuple')      # attrs classes: records with named fields (field order = attr.ib() order)
    return VClass(key, 'repo')


def namedtuple_fields(ip, key):
    relpath, name = key.split(':')
    mod = ip.repo.module(relpath)
    for b in mod.classes[name].bases:
        if isinstance(b, ast.Call) and getattr(b.func, 'id', '') == 'namedtuple':
            spec = b.args[1]
            if isinstance(spec, ast.Constant):
                return spec.value.replace(',', ' ').split()
    fields = [st.targets[0].id for st in mod.classes[name].body
              if isinstance(st, ast.Assign) and isinstance(st.value, ast.Call) and ast.unparse(st.value.func) == 'attr.ib']
    if fields:
        return fields
    raise EngineError(f'cannot read namedtuple fields of {key}')


# ---------------------------------------------------------------------------------------------
# attributes

LIST_METHODS = {'append', 'extend', 'pop', 'index', 'insert', 'sort', 'reverse', 'copy', 'clear', 'count',
                '__setitem__', '__getitem__'}
SET_METHODS = {'add', 'update', 'intersection', 'union', 'difference', 'discard', 'remove', 'pop', 'clear',
               'copy', 'difference_update', 'issubset', 'isdisjoint', 'intersection_update', '__contains__'}
DICT_METHODS = {'get', 'pop', 'items', 'keys', 'values', 'update', 'setdefault', 'clear', 'copy',
                '__setitem__', '__getitem__', '__contains__', 'popitem'}
STR_METHODS = {'split', 'lower', 'upper', 'join', 'format', 'startswith', 'endswith', 'strip', 'encode',
               'rpartition', 'partition', 'replace', 'isdigit', 'hex', 'decode', 'find', 'rsplit', 'lstrip',
               'rstrip', 'count', 'index', 'fromhex', 'to_bytes', 'bit_length', 'from_bytes'}


def get_attr(ip, obj, attr, node, fr):
    obj = resolve(ip, obj)
    if isinstance(obj, VJ):
        if attr == 'get':
            s_ = J_sort()
            ip.raise_if(z3.Not(s_.is_JDict(obj.t)), 'AttributeError', node)
            return VFunc('bound', 'jterm.get', self_val=obj)
        raise EngineError(f'attribute {attr} of a JSON term outside code mode')
    if isinstance(obj, VObj):
        if attr in obj.fields:
            v = obj.fields[attr]
            if isinstance(v, VFunc) and v.fkind == 'contractref' and v.self_val is None:
                if v.target.rsplit('.', 1)[0] in ip.reg.classes:
                    return VFunc('contractref', v.name, target=v.target, self_val=obj)
            return v
        relpath, cname = obj.cls.split(':')
        if relpath != 'ext' and attr in EXC_PARENT:
            # an exception class nested in the repository class (class DB: class DBError(Exception))
            cnode = ip.repo.module(relpath).classes.get(cname)
            for sub in (cnode.body if cnode is not None else []):
                if isinstance(sub, ast.ClassDef) and sub.name == attr:
                    return VClass(attr, 'exc')
        m = find_method(ip, relpath, cname, attr) if relpath != 'ext' else None
        if m is not None:
            mod, key, fnode, clsname = m
            decos = [ast.unparse(d) for d in fnode.decorator_list]
            if 'property' in decos or 'cachedproperty' in decos or 'util.cachedproperty' in decos:
                f = VFunc('repo', attr, target=key, self_val=obj)
                v = ip.call(f, [], {}, node, fr)
                if 'property' not in decos:
                    obj.fields[attr] = v
                return v
            if 'staticmethod' in decos:
                return VFunc('repo', attr, target=key)
            if 'classmethod' in decos:
                return VFunc('repo', attr, target=key, self_val=VClass(obj.cls, 'repo'))
            return VFunc('repo', attr, target=key, self_val=obj)
        ca = find_class_assign(ip, relpath, cname, attr) if relpath != 'ext' else None
        if ca is not None:
            mod, expr = ca
            return ip.eval(expr, Frame(mod, f'{relpath}:{cname}'))
        spec = ip.reg.classes.get(obj.cls)
        if spec is not None and attr in spec.methods:
            return VFunc('contractref', attr, target=spec.methods[attr], self_val=obj)
        if ip.mode == 'spec':
            raise EngineError(f'{obj.cls} has no field {attr} (specification expression)')
        raise EngineError(f'{obj.cls} object has no attribute {attr!r} (declare the field in the class '
                          f'description); line {getattr(node, "lineno", "?")}')
    if isinstance(obj, VModule):
        return module_attr(ip, obj, attr)
    if isinstance(obj, VEnv):
        return obj.env[attr]
    if isinstance(obj, VClass):
        if obj.ckind in ('repo', 'namedtuple'):
            relpath, cname = obj.name.split(':')
            m = find_method(ip, relpath, cname, attr)
            if m is not None:
                mod, key, fnode, clsname = m
                decos = [ast.unparse(d) for d in fnode.decorator_list]
                if 'classmethod' in decos:
                    return VFunc('repo', attr, target=key, self_val=obj)
                return VFunc('repo', attr, target=key)
            ca = find_class_assign(ip, relpath, cname, attr)
            if ca is not None:
                mod, expr = ca
                return ip.eval(expr, Frame(mod, f'{relpath}:{cname}'))
            raise EngineError(f'class {obj.name} has no attribute {attr}')
        return VFunc('bound', f'{obj.name}.{attr}', self_val=None)
    if isinstance(obj, VTuple):
        k = obj._kind
        if k is not None and k.fields and attr in k.fields:
            return obj.items[k.fields.index(attr)]
        if k is not None and k.fields is not None and getattr(k, 'cls_key', None):
            relpath, cname = k.cls_key.split(':')
            m = find_method(ip, relpath, cname, attr)
            if m is not None:
                return VFunc('repo', attr, target=m[1], self_val=obj)
        if attr in ('index', 'count'):
            return VFunc('bound', f'tuple.{attr}', self_val=obj)
        raise EngineError(f'attribute {attr} of tuple')
    def has(pytype):
        # attribute lookup on a value of a builtin type raises AttributeError exactly when the
        # type has no such attribute
        if ip.mode == 'code' and not hasattr(pytype, attr):
            raise PyRaise(VExc('AttributeError'), node)
    if isinstance(obj, VList):
        if obj.ek == KInt and attr == 'frombytes':
            return VFunc('bound', 'list.frombytes', self_val=obj)
        if obj.ek == KInt and attr in ('itemsize', 'tobytes'):
            # T-ARRAY: the integer lists of the index objects (DB.tx_counts) are array('Q'): 8-byte items
            ip.assumed.add("T-ARRAY: integer-list fields are array('Q') objects: itemsize 8, tobytes() is 8 bytes per item (little endian)")
            if attr == 'itemsize':
                return VConst(8)
            return VFunc('bound', 'list.tobytes', self_val=obj)
        has(tuple if obj.ghost.get('tuple') else list)
        return VFunc('bound', f'list.{attr}', self_val=obj)
    if isinstance(obj, VSet):
        has(set)
        return VFunc('bound', f'set.{attr}', self_val=obj)
    if isinstance(obj, VDict):
        has(dict)
        return VFunc('bound', f'dict.{attr}', self_val=obj)
    if isinstance(obj, VStr) or (isinstance(obj, VConst) and isinstance(obj.py, str)):
        has(str)
        return VFunc('bound', f'str.{attr}', self_val=obj)
    if isinstance(obj, VBytes) or (isinstance(obj, VConst) and isinstance(obj.py, (bytes, bytearray))):
        # a bytes term held in a mutable container slot stands for a bytearray (defaultdict(bytearray), d[k].extend(..))
        has(bytearray if getattr(obj, 'parent', None) is not None else bytes)
        return VFunc('bound', f'bytes.{attr}', self_val=obj)
    if isinstance(obj, VBool) or (isinstance(obj, VConst) and isinstance(obj.py, bool)):
        has(bool)
        return VFunc('bound', f'int.{attr}', self_val=obj)
    if is_intlike(obj):
        has(int)
        return VFunc('bound', f'int.{attr}', self_val=obj)
    if isinstance(obj, VFloat):
        has(float)
        return VFunc('bound', f'float.{attr}', self_val=obj)
    if isinstance(obj, VJList):
        has(list)
        return VFunc('bound', f'jlist.{attr}', self_val=obj)
    if isinstance(obj, VJDict):
        has(dict)
        return VFunc('bound', f'jdict.{attr}', self_val=obj)
    if isinstance(obj, VConst) and obj.py is None:
        has(type(None))
    if isinstance(obj, VStruct):
        return VFunc('bound', f'Struct.{attr}', self_val=obj)
    if isinstance(obj, VExc):
        if attr == 'args':
            return VTuple(obj.args)
        if attr in ('code', 'message') and obj.typ in ('RPCError', 'DaemonError'):
            i = 0 if attr == 'code' else 1
            return obj.args[i] if len(obj.args) > i else VConst(None)
        raise EngineError(f'attribute {attr} of exception {obj.typ}')
    if isinstance(obj, VOpaque):
        return VFunc('bound', f'opaque.{attr}', self_val=obj)
    if isinstance(obj, VU):
        if attr in obj.kind.attrs:
            k = obj.kind.attrs[attr]
            f = UF(f'{obj.kind.name}.{attr}', obj.kind.sort(), k.sort())
            return k.wrap(f(obj.t), ip)
        return VFunc('bound', f'U.{attr}', self_val=obj)
    if isinstance(obj, (VJList, VJDict, VFloat)) or (isinstance(obj, VConst) and obj.py is None):
        # attribute access on a JSON value of the wrong shape
        if isinstance(obj, VJDict) and attr in ('get', 'items', 'keys', 'values'):
            return VFunc('bound', f'jdict.{attr}', self_val=obj)
        raise PyRaise(VExc('AttributeError'), node)
    if isinstance(obj, VFunc):
        raise EngineError(f'attribute {attr} of function {obj.name}')
    raise EngineError(f'attribute {attr} of {obj!r}')


def find_method(ip, relpath, cname, attr, depth=0):
    mod = ip.repo.module(relpath)
    q = f'{cname}.{attr}'
    if q in mod.functions:
        return mod, f'{relpath}:{q}', mod.functions[q], cname
    if depth > 6:
        return None
    for b in mod.class_bases.get(cname, []):
        bn = b.split('(')[0]
        if bn in mod.classes:
            r = find_method(ip, relpath, bn, attr, depth + 1)
            if r:
                return r
        elif bn in mod.imports and mod.imports[bn][0] == 'from':
            m2 = ip.repo.module_by_dotted(mod.imports[bn][1])
            if m2 is not None and mod.imports[bn][2] in m2.classes:
                r = find_method(ip, m2.relpath, mod.imports[bn][2], attr, depth + 1)
                if r:
                    return r
    return None


def find_class_assign(ip, relpath, cname, attr, depth=0):
    mod = ip.repo.module(relpath)
    if (cname, attr) in mod.class_assigns:
        return mod, mod.class_assigns[(cname, attr)]
    if depth > 6:
        return None
    for b in mod.class_bases.get(cname, []):
        bn = b.split('(')[0]
        if bn in mod.classes:
            r = find_class_assign(ip, relpath, bn, attr, depth + 1)
            if r:
                return r
        elif bn in mod.imports and mod.imports[bn][0] == 'from':
            m2 = ip.repo.module_by_dotted(mod.imports[bn][1])
            if m2 is not None and mod.imports[bn][2] in m2.classes:
                r = find_class_assign(ip, m2.relpath, mod.imports[bn][2], attr, depth + 1)
                if r:
                    return r
    return None


# ---------------------------------------------------------------------------------------------
# calls of builtins

def is_str(v):
    return isinstance(v, VStr) or (isinstance(v, VConst) and isinstance(v.py, str))


def is_bytes(v):
    return isinstance(v, VBytes) or (isinstance(v, VConst) and isinstance(v.py, (bytes, bytearray)))


def py_type_test(ip, v, cls, node):
    '''isinstance(v, cls) for a resolved value and a VClass: Python bool.'''
    n = cls.name
    if n == 'int':
        return is_intlike(v)
    if n == 'bool':
        return isinstance(v, VBool) or (isinstance(v, VConst) and isinstance(v.py, bool))
    if n == 'str':
        return is_str(v)
    if n in ('bytes', 'bytearray'):
        return is_bytes(v) or (isinstance(v, VU) and v.kind.name in ('Bytes', 'Val', 'Hash'))
    if n == 'list':
        return isinstance(v, (VList, VJList))
    if n == 'dict':
        return isinstance(v, (VDict, VJDict))
    if n == 'tuple':
        return isinstance(v, VTuple)
    if n == 'set':
        return isinstance(v, VSet)
    if n == 'float':
        return isinstance(v, (VFloat, VReal)) or (isinstance(v, VConst) and isinstance(v.py, float))
    if cls.ckind == 'exc':
        return isinstance(v, VExc) and exc_is_subclass(v.typ, n)
    if cls.ckind in ('repo', 'namedtuple'):
        if isinstance(v, VObj):
            return v.cls == n
        if isinstance(v, VTuple):
            return getattr(v._kind, 'cls_key', None) == n
        return False
    raise EngineError(f'isinstance against {n}')


def call_builtin(ip, f, args, kwargs, node, fr):
    name = f.name
    if f.fkind == 'contractref':
        c = ip.reg.contracts[f.target]
        if ':' in f.target and not f.target.startswith('ext:'):
            try:
                mod, fnode = ip.repo.function(f.target)
            except KeyError:
                mod = fnode = None
            if fnode is not None:
                return ip.apply_contract(c, fnode, mod, f, args, kwargs, node, fr)
        names = list(c.params.keys())
        if f.self_val is not None and 'self' not in names:
            names = ['self'] + names
        env = dict(zip(names, ([f.self_val] if f.self_val is not None else []) + list(args)))
        env.update(kwargs)
        for pname, dflt in getattr(c, 'defaults', {}).items():
            env.setdefault(pname, dflt if isinstance(dflt, Value) else VConst(dflt))
        return ip.apply_contract_env(c, env, node, fr)
    if name in ip.reg.builtin_contracts and f.fkind == 'builtin':
        c = ip.reg.builtin_contracts[name]
        env = dict(zip(list(c.params.keys()), args))
        env.update(kwargs)
        return ip.apply_contract_env(c, env, node, fr)
    if f.fkind == 'bound':
        return call_method(ip, f, args, kwargs, node, fr)
    h = FUNCS.get(name)
    if h is None:
        raise EngineError(f'builtin {name} is not modelled (line {getattr(node, "lineno", "?")})')
    return h(ip, args, kwargs, node, fr)


FUNCS = {}


def _kwargs_guard(fn, what):
    '''A model that never looks at keyword arguments must not be handed any: silently dropping one (enumerate(..,
    start=n) was the case that exposed this) would make the encoding unsound.'''
    import dis
    if any(i.argval == 'kwargs' for i in dis.get_instructions(fn)) or what.startswith('opaque') or what in ('print',):
        return fn

    def guarded(*a):
        kwargs = a[-3]
        if kwargs:
            raise EngineError(f'{what}: keyword argument(s) {sorted(kwargs)} are not modelled')
        return fn(*a)
    guarded.__name__ = fn.__name__
    return guarded


def builtin(name):
    def deco(fn):
        FUNCS[name] = _kwargs_guard(fn, name)
        return fn
    return deco


@builtin('len')
def _len(ip, args, kwargs, node, fr):
    v = resolve(ip, args[0])
    if isinstance(v, VList):
        return KInt.wrap(z3.simplify(v.n))
    if isinstance(v, VTuple):
        return VConst(len(v.items))
    if isinstance(v, VConst) and isinstance(v.py, (str, bytes, tuple)):
        return VConst(len(v.py))
    if isinstance(v, (VBytes, VStr)):
        r = seq_len(v.t)
        if z3.is_int_value(r):
            return VConst(r.as_long())
        ip.assume(r >= 0)
        return VInt(r)
    if isinstance(v, VU) and v.kind.lenf:
        r = UF(v.kind.lenf, v.kind.sort(), z3.IntSort())(v.t)
        ip.assume(r >= 0)
        return VInt(r)
    if isinstance(v, VJList):
        r = UF('jlist_len', z3.IntSort(), z3.IntSort())(v.ident)
        ip.assume(r >= 0)
        return VInt(r)
    if isinstance(v, VJDict):
        r = UF('jdict_len', z3.IntSort(), z3.IntSort())(v.ident)
        ip.assume(r >= 0)
        return VInt(r)
    if isinstance(v, (VSet, VDict)):
        dom, ek = as_set(ip, v)
        if ek is None:
            return VConst(0)
        card = UF(f'card_{ek.name}', z3.ArraySort(ek.sort(), z3.BoolSort()), z3.IntSort())
        r = card(dom)
        ip.assume(r >= 0)
        x = z3.Const(ip.fresh_name('x'), ek.sort())
        ip.assume((r == 0) == z3.Not(z3.Exists([x], z3.Select(dom, x))))
        # a set of at most one element has no two different members (the only other cardinality fact the code relies on:
        # `if len(candidates) > 1`)
        y = z3.Const(ip.fresh_name('y'), ek.sort())
        ip.assume(z3.ForAll([x, y], z3.Implies(z3.And(r <= 1, z3.Select(dom, x), z3.Select(dom, y)), x == y),
                            patterns=[z3.MultiPattern(z3.Select(dom, x), z3.Select(dom, y))]))
        return VInt(r)
    if isinstance(v, (VInt, VBool, VFloat)) or (isinstance(v, VConst) and (v.py is None or isinstance(v.py, (int, float)))):
        raise PyRaise(VExc('TypeError'), node)
    if isinstance(v, (VExc, VFunc, VClass)) and ip.mode == 'code':
        raise PyRaise(VExc('TypeError'), node)      # object of this type has no len()
    raise EngineError(f'len of {v!r}')


@builtin('isinstance')
def _isinstance(ip, args, kwargs, node, fr):
    v = resolve(ip, args[0])
    c = args[1]
    classes = c.items if isinstance(c, VTuple) else (c,)
    if isinstance(v, VJ):    # specification mode
        s = J_sort()
        ts = []
        for cl in classes:
            ts.append({'int': z3.Or(s.is_JInt(v.t), s.is_JBool(v.t)), 'str': s.is_JStr(v.t),
                       'list': s.is_JList(v.t), 'dict': s.is_JDict(v.t), 'bool': s.is_JBool(v.t),
                       'float': s.is_JFloat(v.t)}[cl.name])
        return KBool.wrap(z3.Or(*ts))
    return VConst(any(py_type_test(ip, v, cl, node) for cl in classes))


def int_of(ip, v, node, base=None):
    '''T-INT: int(x)'''
    v = resolve(ip, v)
    ip.assumed.add('T-INT')
    if is_intlike(v):
        return KInt.wrap(int_term(v)) if not isinstance(v, VConst) else VConst(int(v.py))
    if isinstance(v, VConst) and isinstance(v.py, float):
        try:
            return VConst(int(v.py))
        except OverflowError:
            raise PyRaise(VExc('OverflowError'), node)
        except ValueError:
            raise PyRaise(VExc('ValueError'), node)
    if isinstance(v, VConst) and isinstance(v.py, (str, bytes)):
        try:
            return VConst(int(v.py) if base is None else int(v.py, base))
        except ValueError:
            raise PyRaise(VExc('ValueError'), node)
    if isinstance(v, VFloat):
        ip.raise_if(v.fk == 3, 'ValueError', node)
        ip.raise_if(v.fk != 0, 'OverflowError', node)      # int(+-inf)
        r = v.r
        return VInt(z3.If(r >= 0, z3.ToInt(r), -z3.ToInt(-r)))
    if isinstance(v, VReal):
        return VInt(z3.If(v.t >= 0, z3.ToInt(v.t), -z3.ToInt(-v.t)))
    if isinstance(v, VStr):
        ok = UF('str_is_int', z3.StringSort(), z3.BoolSort())(v.t)
        ip.raise_if(z3.Not(ok), 'ValueError', node)
        return VInt(UF('str_to_int', z3.StringSort(), z3.IntSort())(v.t))
    if isinstance(v, VBytes):
        ok = UF('bytes_is_int', v.t.sort(), z3.BoolSort())(v.t)
        ip.raise_if(z3.Not(ok), 'ValueError', node)
        return VInt(UF('bytes_to_int', v.t.sort(), z3.IntSort())(v.t))
    if isinstance(v, (VJList, VJDict, VList, VDict, VTuple, VSet)) or (isinstance(v, VConst) and v.py is None):
        raise PyRaise(VExc('TypeError'), node)
    raise EngineError(f'int() of {v!r}')


@builtin('range')
def _range(ip, args, kwargs, node, fr):
    vs = [resolve(ip, a) for a in args]
    for v in vs:
        if not is_intlike(v):
            raise PyRaise(VExc('TypeError'), node)
    if len(vs) == 1:
        return VRange(VConst(0), vs[0], VConst(1))
    if len(vs) == 2:
        return VRange(vs[0], vs[1], VConst(1))
    return VRange(vs[0], vs[1], vs[2])


def minmax(ip, args, kwargs, node, fr, is_max):
    if 'key' in kwargs or 'default' in kwargs:
        raise EngineError('min/max with key/default')
    if len(args) == 1:
        v = resolve(ip, args[0])
        if isinstance(v, VTuple):
            args = list(v.items)
        elif isinstance(v, (VSet, VDict, VList)):
            if isinstance(v, VList) and 'enum_of' not in v.ghost:
                if v.ek is None or not ip.branch(v.n > 0):
                    raise PyRaise(VExc('ValueError'), node)
                if v.ek != KInt:
                    raise EngineError('max of a list of non-integers')
                m = z3.Int(ip.fresh_name('m'))
                j, w = z3.Int(ip.fresh_name('j')), z3.Int(ip.fresh_name('w'))
                ip.assume(z3.And(0 <= w, w < v.n, z3.Select(v.arr, w) == m))
                ip.assume(z3.ForAll([j], z3.Implies(z3.And(0 <= j, j < v.n),
                                                    z3.Select(v.arr, j) <= m if is_max else z3.Select(v.arr, j) >= m),
                                    patterns=[z3.Select(v.arr, j)]))
                return VInt(m)
            dom, ek = as_set(ip, v)
            if ek is None or not ip.branch(truth(ip, v)):
                raise PyRaise(VExc('ValueError'), node)
            if ek != KInt:
                raise EngineError('max of a set of non-integers')
            m = z3.Int(ip.fresh_name('m'))
            x = z3.Int(ip.fresh_name('x'))
            ip.assume(z3.Select(dom, m))
            ip.assume(z3.ForAll([x], z3.Implies(z3.Select(dom, x), x <= m if is_max else x >= m),
                                patterns=[z3.Select(dom, x)]))
            return VInt(m)
        else:
            raise EngineError(f'max/min of {v!r}')
    vs = [resolve(ip, a) for a in args]
    if all(isinstance(v, VConst) for v in vs):
        try:
            return VConst((max if is_max else min)(v.py for v in vs))
        except TypeError:
            raise PyRaise(VExc('TypeError'), node)
    if any(isinstance(v, VConst) and v.py is None for v in vs) and ip.mode == 'code':
        raise PyRaise(VExc('TypeError'), node)        # None is not orderable
    if all(is_intlike(v) for v in vs):
        r = int_term(vs[0])
        for v in vs[1:]:
            t = int_term(v)
            r = z3.If(t > r, t, r) if is_max else z3.If(t < r, t, r)
        return KInt.wrap(z3.simplify(r))
    if all(is_intlike(v) or isinstance(v, VReal) or is_reallike(v) for v in vs):
        r = real_term(vs[0])
        for v in vs[1:]:
            t = real_term(v)
            r = z3.If(t > r, t, r) if is_max else z3.If(t < r, t, r)
        return VReal(r)
    if all(isinstance(v, (VTuple, VList)) for v in vs) and len(vs) == 2:
        op = ast.Gt() if is_max else ast.Lt()
        c = truth(ip, compare(ip, op, vs[1], vs[0], node))
        if ip.mode == 'code':
            return vs[1] if ip.branch(c) else vs[0]
        raise EngineError('max of tuples in specification mode')
    if len(vs) == 2 and ip.mode == 'code':
        # any two orderable values: decided by the comparison itself (raises TypeError when not orderable)
        op = ast.Gt() if is_max else ast.Lt()
        c = truth(ip, compare(ip, op, vs[1], vs[0], node))
        return vs[1] if ip.branch(c) else vs[0]
    raise EngineError(f'max/min of {vs!r}')


@builtin('max')
def _max(ip, args, kwargs, node, fr):
    return minmax(ip, args, kwargs, node, fr, True)


@builtin('min')
def _min(ip, args, kwargs, node, fr):
    return minmax(ip, args, kwargs, node, fr, False)


@builtin('abs')
def _abs(ip, args, kwargs, node, fr):
    v = resolve(ip, args[0])
    if isinstance(v, VConst):
        return VConst(abs(v.py))
    t = int_term(v)
    return VInt(z3.If(t >= 0, t, -t))


@builtin('divmod')
def _divmod(ip, args, kwargs, node, fr):
    a, b = args
    return VTuple((binop(ip, ast.FloorDiv(), a, b, node), binop(ip, ast.Mod(), a, b, node)))


@builtin('reversed')
def _reversed(ip, args, kwargs, node, fr):
    v = resolve(ip, args[0])
    if isinstance(v, VList):
        # the reversed list, materialised: element j is element n - 1 - j
        if v.ek is None:
            return VList(None, z3.IntVal(0), None)
        j = z3.Int(ip.fresh_name('j'))
        return VList(def_array(ip, j, z3.Select(v.arr, v.n - 1 - j), 'reversed'), v.n, v.ek)
    if isinstance(v, VTuple):
        return VTuple(tuple(reversed(v.items)))
    return VReversed(v)


@builtin('math.ceil')
def _ceil(ip, args, kwargs, node, fr):
    v = resolve(ip, args[0])
    if is_intlike(v):
        return v
    r = real_term(v)
    return VInt(-z3.ToInt(-r))


@builtin('math.floor')
def _floor(ip, args, kwargs, node, fr):
    v = resolve(ip, args[0])
    if is_intlike(v):
        return v
    return VInt(z3.ToInt(real_term(v)))


@builtin('time.time')
def _time(ip, args, kwargs, node, fr):
    return VReal(z3.Real(ip.fresh_name('now')))


@builtin('sleep')
def _sleep(ip, args, kwargs, node, fr):
    return VConst(None)


@builtin('print')
def _print(ip, args, kwargs, node, fr):
    return VConst(None)


@builtin('repr')
def _repr(ip, args, kwargs, node, fr):
    ip.assumed.add('T-STR')
    return fresh_str(ip, 'repr')


@builtin('sum')
def _sum(ip, args, kwargs, node, fr):
    v = resolve(ip, args[0])
    if isinstance(v, VTuple):
        r = VConst(0)
        for x in v.items:
            r = binop(ip, ast.Add(), r, x, node)
        return r
    if isinstance(v, VList):
        if v.ek is None:
            return VConst(0)
        if v.ek != KInt:
            raise EngineError('sum of non-integer list')
        s = ip.V.sumf
        return VInt(s(v.arr, v.n))
    raise EngineError(f'sum of {v!r}')


@builtin('any')
def _any(ip, args, kwargs, node, fr):
    return anyall(ip, args, node, True)


@builtin('all')
def _all(ip, args, kwargs, node, fr):
    return anyall(ip, args, node, False)


def anyall(ip, args, node, is_any):
    v = resolve(ip, args[0])
    if isinstance(v, VTuple):
        ts = [truth(ip, x) for x in v.items]
        ts = [z3.BoolVal(t) if isinstance(t, bool) else t for t in ts]
        return KBool.wrap(z3.simplify(z3.Or(*ts) if is_any else z3.And(*ts))) if ts else VConst(not is_any)
    if isinstance(v, VList):
        if v.ek is None:
            return VConst(not is_any)
        if v.ek != KBool:
            raise EngineError('any/all over non-bool list')
        j = z3.Int(ip.fresh_name('j'))
        rng = z3.And(0 <= j, j < v.n)
        if is_any:
            return KBool.wrap(z3.Exists([j], z3.And(rng, z3.Select(v.arr, j))))
        return KBool.wrap(z3.ForAll([j], z3.Implies(rng, z3.Select(v.arr, j))))
    raise EngineError(f'any/all of {v!r}')


@builtin('sorted')
def _sorted(ip, args, kwargs, node, fr):
    v = resolve(ip, args[0])
    if kwargs:
        raise EngineError('sorted with key/reverse')
    dom, ek = as_set(ip, v) if isinstance(v, (VSet, VDict)) else (None, None)
    if isinstance(v, (VSet, VDict)):
        if ek is None:
            return VList(None, z3.IntVal(0), None)
        if ek != KInt:
            r = enum_list(ip, dom, ek)       # order not modelled for non-integers: an arbitrary enumeration
            return r
        r = KList(KInt).fresh(ip, 'sorted')
        i, j = z3.Int(ip.fresh_name('i')), z3.Int(ip.fresh_name('j'))
        ip.assume(z3.ForAll([i, j], z3.Implies(z3.And(0 <= i, i < j, j < r.n),
                                               z3.Select(r.arr, i) < z3.Select(r.arr, j))))
        ip.assume(z3.ForAll([i], z3.Implies(z3.And(0 <= i, i < r.n), z3.Select(dom, z3.Select(r.arr, i))),
                            patterns=[z3.Select(r.arr, i)]))
        r.ghost['enum_of'] = dom
        return r
    if isinstance(v, VList):
        # a permutation of the list (witnessed both ways); the order itself is modelled for integers only
        if v.ek is None:
            return VList(None, z3.IntVal(0), None)
        r = KList(v.ek).fresh(ip, 'sorted')
        ip.assume(r.n == v.n)
        pf = z3.Function(ip.fresh_name('perm'), z3.IntSort(), z3.IntSort())
        qf = z3.Function(ip.fresh_name('perminv'), z3.IntSort(), z3.IntSort())
        i, j = z3.Int(ip.fresh_name('i')), z3.Int(ip.fresh_name('j'))
        ip.assume(z3.ForAll([i], z3.Implies(z3.And(0 <= i, i < r.n),
                                            z3.And(0 <= pf(i), pf(i) < v.n, z3.Select(r.arr, i) == z3.Select(v.arr, pf(i)),
                                                   qf(pf(i)) == i)), patterns=[z3.Select(r.arr, i)]))
        ip.assume(z3.ForAll([j], z3.Implies(z3.And(0 <= j, j < v.n),
                                            z3.And(0 <= qf(j), qf(j) < r.n, z3.Select(v.arr, j) == z3.Select(r.arr, qf(j)),
                                                   pf(qf(j)) == j)), patterns=[z3.Select(v.arr, j)]))
        if v.ek == KInt:
            ip.assume(z3.ForAll([i, j], z3.Implies(z3.And(0 <= i, i < j, j < r.n),
                                                   z3.Select(r.arr, i) <= z3.Select(r.arr, j))))
        return r
    raise EngineError(f'sorted of {v!r}')


def py_add(ip, a, b):
    if isinstance(a, VConst) and isinstance(b, VConst):
        return VConst(a.py + b.py)
    return VInt(z3.simplify(int_term(a) + int_term(b)))


@builtin('enumerate')
def _enumerate(ip, args, kwargs, node, fr):
    v = resolve(ip, args[0])
    if set(kwargs) - {'start'} or len(args) > 2:
        raise EngineError('enumerate() with unexpected arguments')
    start = resolve(ip, args[1] if len(args) > 1 else kwargs.get('start', VConst(0)))
    if not is_intlike(start):
        raise EngineError('enumerate() with a non-integer start')
    if isinstance(v, VTuple):
        return VTuple(tuple(VTuple((py_add(ip, start, VConst(i)), x)) for i, x in enumerate(v.items)))
    if isinstance(v, VList):
        if v.ek is None:
            return VList(None, z3.IntVal(0), None)
        k = KTuple(KInt, v.ek)
        j = z3.Int(ip.fresh_name('j'))
        arr = def_array(ip, j, k.sort().constructor(0)(int_term(start) + j, z3.Select(v.arr, j)), 'enumerate')
        return VList(arr, v.n, k)
    raise EngineError(f'enumerate of {v!r}')


@builtin('zip')
def _zip(ip, args, kwargs, node, fr):
    vs = [resolve(ip, a) for a in args]
    if all(isinstance(v, VTuple) for v in vs):
        return VTuple(tuple(VTuple(t) for t in zip(*[v.items for v in vs])))
    vs = [tuple_to_list(v) if isinstance(v, VTuple) else v for v in vs]
    if all(isinstance(v, VList) for v in vs):
        if any(v.ek is None for v in vs):
            return VList(None, z3.IntVal(0), None)
        k = KTuple(*[v.ek for v in vs])
        j = z3.Int(ip.fresh_name('j'))
        arr = def_array(ip, j, k.sort().constructor(0)(*[z3.Select(v.arr, j) for v in vs]), 'zip')
        n = vs[0].n
        for v in vs[1:]:
            n = z3.If(v.n < n, v.n, n)
        return VList(arr, z3.simplify(n), k)
    raise EngineError(f'zip of {vs!r}')


@builtin('partial')
def _partial(ip, args, kwargs, node, fr):
    return VFunc('partial', 'partial', target=(args[0], list(args[1:]), dict(kwargs)))


@builtin('getattr')
def _getattr(ip, args, kwargs, node, fr):
    name = resolve(ip, args[1])
    if not (isinstance(name, VConst) and isinstance(name.py, str)):
        raise EngineError('getattr with a computed name')
    try:
        return get_attr(ip, args[0], name.py, node, fr)
    except EngineError:
        if len(args) == 3:
            return args[2]
        raise


@builtin('run_in_thread')
def _run_in_thread(ip, args, kwargs, node, fr):
    # cooperative model: the job runs to completion at the await (DESIGN 2.2: worker-thread
    # preemption is not modelled)
    ip.assumed.add('A-COOP: run_in_thread jobs are atomic with respect to the event loop')
    return ip.call(args[0], list(args[1:]), {}, node, fr)


# ---------------------------------------------------------------------------------------------
# classes as callables

def call_class(ip, c, args, kwargs, node, fr):
    n = c.name
    if c.ckind == 'exc':
        return VExc(n, args)
    if c.ckind == 'ntfunc':
        fields = c.fields
        if len(args) + len(kwargs) != len(fields):
            raise PyRaise(VExc('TypeError'), node)
        items = list(args) + [kwargs[f] for f in fields[len(args):]]
        t = VTuple(items)
        try:
            t._kind = KTuple(*[kind_of(resolve(ip, x)) for x in items], fields=fields, tname=None)
        except TypeError:
            t._kind = None
        return t
    if c.ckind == 'namedtuple':
        fields = namedtuple_fields(ip, n)
        if len(args) + len(kwargs) != len(fields):
            raise PyRaise(VExc('TypeError'), node)
        items = list(args) + [kwargs[f] for f in fields[len(args):]]
        t = VTuple(items)
        k = ip.reg.kinds.get('nt:' + n)
        if k is None:
            k = KTuple(*[kind_of(resolve(ip, x)) for x in items], fields=fields, tname=None)
            k.cls_key = n
        t._kind = k
        return t
    if c.ckind == 'repo':
        ckey = n
        ctor = ip.reg.contracts.get(ckey + '.__init__')
        relpath, cname = n.split(':')
        m = find_method(ip, relpath, cname, '__init__')
        if n in ip.reg.classes and m is not None and (ctor is None or ctor.inline or
                                                       (m[1]) in ip.reg.inline):
            ip.obj_count += 1
            o = VObj(n, {}, ident=ip.obj_count)
            f = VFunc('repo', '__init__', target=m[1], self_val=o)
            mod, fnode = ip.repo.function(m[1])
            env = ip.bind_params(fnode, args, dict(kwargs), o)
            ip.eval_defaults(env, mod, m[1])
            ip.run_body(fnode, Frame(mod, m[1], env))
            return o
        raise EngineError(f'construction of {n} is not modelled')
    if n == 'int':
        if not args:
            return VConst(0)
        base = None
        if len(args) == 2:
            b = resolve(ip, args[1])
            base = b.py if isinstance(b, VConst) else None
        return int_of(ip, args[0], node, base)
    if n == 'bool':
        t = truth(ip, args[0]) if args else False
        return VConst(t) if isinstance(t, bool) else KBool.wrap(t)
    if n == 'list':
        if not args:
            return VList(None, z3.IntVal(0), None)
        return to_list(ip, args[0], node)
    if n == 'tuple':
        if not args:
            return VTuple(())
        v = resolve(ip, args[0])
        if isinstance(v, VTuple):
            return v
        ci = ip.concrete_items(v)
        if ci is not None:
            return VTuple(ci)
        r = to_list(ip, v, node)       # a tuple of symbolic length is represented as a list
        r.ghost['tuple'] = True
        return r
    if n in ('set', 'frozenset'):
        if not args:
            return VSet(None, None)
        dom, ek = as_set(ip, args[0])
        return VSet(dom, ek)
    if n == 'dict':
        if not args and not kwargs:
            return VDict(None, None, None, None)
        v = resolve(ip, args[0]) if args else None
        if isinstance(v, VDict):
            return VDict(v.map, v.dom, v.kk, v.vk)
        raise EngineError('dict() from this argument')
    if n == 'arrayQ':
        # array.array('Q'): an (initially empty) list of unsigned 64-bit integers (T-ARRAY)
        tc = resolve(ip, args[0]) if args else None
        if not (isinstance(tc, VConst) and tc.py == 'Q') or len(args) != 1:
            raise EngineError("array.array with a type code other than 'Q' or with an initialiser")
        ip.assumed.add("T-ARRAY: array('Q') holds unsigned 64-bit items; frombytes() appends one item per 8 bytes, little endian")
        return KList(KInt).wrap_empty(ip) if hasattr(KList(KInt), 'wrap_empty') else _empty_int_list(ip)
    if n == 'defaultdict':
        factory = args[0] if args else None
        d = VDict(None, None, None, None)
        if factory is not None:
            d.default = lambda ip_, f=factory: ip_.call(f, [], {}, node, fr)
        return d
    if n in ('bytes', 'bytearray', 'memoryview'):
        if not args:
            return VConst(b'')
        v = resolve(ip, args[0])
        if is_bytes(v) or isinstance(v, VU):
            return v
        if isinstance(v, VConst) and isinstance(v.py, int):
            return VConst(bytes(v.py))
        if isinstance(v, VReversed):
            inner = v.v
            if isinstance(inner, VConst) and isinstance(inner.py, bytes):
                return VConst(bytes(reversed(inner.py)))
            if isinstance(inner, VBytes):
                rev = UF('brev', inner.t.sort(), inner.t.sort())
                r = rev(inner.t)
                ip.assume(seq_len(r) == seq_len(inner.t))
                ip.assume(rev(r) == inner.t)
                return VBytes(r)
            if isinstance(inner, VU):
                k = inner.kind
                rev = UF('rev_' + k.name, k.sort(), k.sort())
                r = rev(inner.t)
                if k.lenf:
                    ln = UF(k.lenf, k.sort(), z3.IntSort())
                    ip.assume(ln(r) == ln(inner.t))
                return VU(r, k)
        if is_intlike(v):
            n_ = int_term(v)
            if ip.branch(n_ < 0):
                raise PyRaise(VExc('ValueError'), node)
            r = fresh_bytes(ip, 'zeros')
            ip.assume(seq_len(r.t) == n_)
            return r
        if isinstance(v, VList) and v.ek == KInt:
            r = fresh_bytes(ip, 'frombytes')
            ip.assume(seq_len(r.t) == v.n)
            return r
        raise EngineError(f'bytes() of {v!r}')
    if n == 'str':
        if not args:
            return VConst('')
        v = resolve(ip, args[0])
        if isinstance(v, VConst) and isinstance(v.py, (str, int)) and not isinstance(v.py, bool):
            return VConst(str(v.py))
        if is_str(v):
            return v
        ip.assumed.add('T-STR')
        return fresh_str(ip, 'str')
    if n == 'float':
        v = resolve(ip, args[0])
        if is_intlike(v):
            return VReal(z3.ToReal(int_term(v)))
        if isinstance(v, (VReal, VFloat)):
            return v
        raise EngineError(f'float() of {v!r}')
    if n == 'Struct':
        return VStruct(resolve(ip, args[0]).py)
    if n in ('Event', 'Lock', 'TaskGroup', 'object'):
        return VOpaque(n)
    raise EngineError(f'constructor {n} is not modelled (line {getattr(node, "lineno", "?")})')


def to_list(ip, v, node):
    v = resolve(ip, v)
    if isinstance(v, VList):
        c = VList(v.arr, v.n, v.ek)
        c.ghost = dict(v.ghost)
        return c
    if isinstance(v, VTuple):
        return tuple_to_list(v)
    if isinstance(v, (VSet, VDict)) or (isinstance(v, VDictItems) and v.what == 'keys'):
        dom, ek = as_set(ip, v)
        return enum_list(ip, dom, ek)
    if isinstance(v, VRange):
        j = z3.Int(ip.fresh_name('j'))
        arr = def_array(ip, j, int_term(v.start) + j * int_term(v.step), 'range')
        return VList(arr, v.count_term(), KInt)
    if isinstance(v, VJList):
        n = UF('jlist_len', z3.IntSort(), z3.IntSort())(v.ident)
        ip.assume(n >= 0)
        j = z3.Int(ip.fresh_name('j'))
        arr = def_array(ip, j, UF('jlist_item', z3.IntSort(), z3.IntSort(), J_sort())(v.ident, j), 'jlist')
        return VList(arr, n, KJ)
    if isinstance(v, VConst) and v.py is None or is_intlike(v) or isinstance(v, VFloat):
        raise PyRaise(VExc('TypeError'), node)
    raise EngineError(f'list() of {v!r}')


class VEnumList(VList):
    '''A duplicate-free list enumerating a finite set in arbitrary order.  Its array/length and
    the quantified facts relating them to the set are only created when something looks at
    them; a `for` loop over it uses the set directly (ghost `enum_of`).'''

    def __init__(self, ip, dom, ek):
        self._ip, self._dom, self.ek = ip, dom, ek
        self._arr = self._n = None
        self.ghost = {'enum_of': dom}

    def _mat(self):
        if self._arr is None:
            r = _enum_list_now(self._ip, self._dom, self.ek)
            self._arr, self._n = r.arr, r.n

    @property
    def arr(self):
        self._mat()
        return self._arr

    @arr.setter
    def arr(self, v):
        self._mat()
        self._arr = v

    @property
    def n(self):
        self._mat()
        return self._n

    @n.setter
    def n(self, v):
        self._mat()
        self._n = v


def enum_list(ip, dom, ek):
    if ek is None:
        return VList(None, z3.IntVal(0), None)
    return VEnumList(ip, dom, ek)


def _enum_list_now(ip, dom, ek):
    '''A duplicate-free list enumerating the finite set `dom` in arbitrary order.'''
    if not z3.is_const(dom):
        x0 = z3.Const(ip.fresh_name('x'), ek.sort())
        dom = name_set(ip, x0, z3.Select(dom, x0), ek)
    r = KList(ek).fresh(ip, 'enum')
    i, j = z3.Int(ip.fresh_name('i')), z3.Int(ip.fresh_name('j'))
    ip.assume(z3.ForAll([i], z3.Implies(z3.And(0 <= i, i < r.n), z3.Select(dom, z3.Select(r.arr, i))),
                        patterns=[z3.Select(r.arr, i)]))
    ip.assume(z3.ForAll([i, j], z3.Implies(z3.And(0 <= i, i < j, j < r.n),
                                           z3.Select(r.arr, i) != z3.Select(r.arr, j)),
                        patterns=[z3.MultiPattern(z3.Select(r.arr, i), z3.Select(r.arr, j))]))
    # completeness: every member has a position (skolem function)
    posf = z3.Function(ip.fresh_name('pos'), ek.sort(), z3.IntSort())
    x = z3.Const(ip.fresh_name('x'), ek.sort())
    ip.assume(z3.ForAll([x], z3.Implies(z3.Select(dom, x),
                                        z3.And(0 <= posf(x), posf(x) < r.n, z3.Select(r.arr, posf(x)) == x)),
                        patterns=[z3.Select(dom, x)]))
    r.ghost['enum_of'] = dom
    return r


# ---------------------------------------------------------------------------------------------
# bound methods

def call_method(ip, f, args, kwargs, node, fr):
    tname, meth = f.name.split('.', 1)
    recv = f.self_val
    h = METHODS.get((tname, meth))
    if h is None:
        key = f'{tname}.{meth}'
        if key in ip.reg.builtin_contracts:
            c = ip.reg.builtin_contracts[key]
            env = dict(zip(list(c.params.keys()), ([recv] if recv is not None else []) + list(args)))
            env.update(kwargs)
            return ip.apply_contract_env(c, env, node, fr)
        raise EngineError(f'method {f.name} is not modelled (line {getattr(node, "lineno", "?")})')
    return h(ip, recv, args, kwargs, node, fr)


METHODS = {}


def method(tname, *names):
    def deco(fn):
        for n in names:
            METHODS[(tname, n)] = _kwargs_guard(fn, f'{tname}.{n}')
        return fn
    return deco


def _empty_int_list(ip):
    r = KList(KInt).fresh(ip, 'arrq')
    ip.assume(r.n == 0)
    r.n = z3.IntVal(0)
    return r


@method('list', 'frombytes')
def _l_frombytes(ip, recv, args, kwargs, node, fr):
    '''array('Q').frombytes(b): ValueError unless len(b) is a multiple of 8; appends the little-endian 64-bit items'''
    if recv.ek != KInt:
        raise EngineError('frombytes on a list that is not an integer array')
    b = resolve(ip, args[0])
    if not is_bytes(b):
        raise PyRaise(VExc('TypeError'), node)
    t = KBytes.unwrap(b)
    n = seq_len(t)
    ip.raise_if(n % 8 != 0, 'ValueError', node)
    ip.touch(recv)
    old_arr, old_n = recv.arr, recv.n
    k = z3.Int(ip.fresh_name('k'))
    ip.assume(k * 8 == n)
    enc, dec = struct_funcs('le', False)
    j = z3.Int(ip.fresh_name('j'))
    new_arr = z3.Const(ip.fresh_name('arrq'), z3.ArraySort(z3.IntSort(), z3.IntSort()))
    ip.assume(z3.ForAll([j], z3.Implies(z3.And(0 <= j, j < old_n), z3.Select(new_arr, j) == z3.Select(old_arr, j)),
                        patterns=[z3.Select(new_arr, j)]))
    ip.assume(z3.ForAll([j], z3.Implies(z3.And(0 <= j, j < k), z3.And(z3.Select(new_arr, old_n + j) == dec(z3.SubSeq(t, 8 * j, 8)),
                                                                       z3.Select(new_arr, old_n + j) >= 0)),
                        patterns=[z3.Select(new_arr, old_n + j)]))
    recv.arr, recv.n = new_arr, z3.simplify(old_n + k)
    recv._writeback()
    return VConst(None)


@method('list', 'tobytes')
def _l_tobytes(ip, recv, args, kwargs, node, fr):
    '''array('Q').tobytes(): 8 bytes per item; content kept abstract (arr_bytes of the item array and the count)'''
    f = UF('arrq_bytes', z3.ArraySort(z3.IntSort(), z3.IntSort()), z3.IntSort(), z3.SeqSort(ByteSort))
    r = f(recv.arr, recv.n)
    ip.assume(seq_len(r) == 8 * recv.n)
    return VBytes(r)


@method('list', 'append')
def _l_append(ip, recv, args, kwargs, node, fr):
    list_append(ip, recv, args[0])
    return VConst(None)


@method('list', 'extend')
def _l_extend(ip, recv, args, kwargs, node, fr):
    inplace_extend(ip, recv, to_list(ip, args[0], node), node)
    return VConst(None)


@method('list', 'copy')
def _l_copy(ip, recv, args, kwargs, node, fr):
    return to_list(ip, recv, node)


@method('list', 'clear')
def _l_clear(ip, recv, args, kwargs, node, fr):
    ip.touch(recv)
    recv.n = z3.IntVal(0)
    recv.ghost = {}
    recv._writeback()
    return VConst(None)


@method('list', 'pop')
def _l_pop(ip, recv, args, kwargs, node, fr):
    if recv.ek is None or not ip.branch(recv.n > 0):
        raise PyRaise(VExc('IndexError'), node)
    if args:
        raise EngineError('list.pop(i)')
    ip.touch(recv)
    v = recv.ek.wrap(z3.Select(recv.arr, recv.n - 1), ip)
    recv.n = z3.simplify(recv.n - 1)
    recv.ghost = {}
    recv._writeback()
    return v


@method('list', 'index')
@method('tuple', 'index')
def _l_index(ip, recv, args, kwargs, node, fr):
    if isinstance(recv, VTuple):
        recv = tuple_to_list(recv)
    if recv.ek is None:
        raise PyRaise(VExc('ValueError'), node)
    try:
        xt = recv.ek.unwrap(resolve(ip, args[0]))
    except TypeError:
        raise PyRaise(VExc('ValueError'), node)
    j = z3.Int(ip.fresh_name('j'))
    found = z3.Exists([j], z3.And(0 <= j, j < recv.n, z3.Select(recv.arr, j) == xt))
    if not ip.branch(found):
        raise PyRaise(VExc('ValueError'), node)
    r = z3.Int(ip.fresh_name('idx'))
    ip.assume(z3.And(0 <= r, r < recv.n, z3.Select(recv.arr, r) == xt))
    ip.assume(z3.ForAll([j], z3.Implies(z3.And(0 <= j, j < r), z3.Select(recv.arr, j) != xt),
                        patterns=[z3.Select(recv.arr, j)]))
    return VInt(r)


@method('list', '__setitem__')
@method('dict', '__setitem__')
def _setitem(ip, recv, args, kwargs, node, fr):
    set_item(ip, recv, args[0], args[1], node)
    return VConst(None)


@method('dict', '__getitem__')
@method('list', '__getitem__')
def _getitem(ip, recv, args, kwargs, node, fr):
    return get_item(ip, recv, args[0], node)


@method('dict', '__contains__')
@method('set', '__contains__')
def _contains_m(ip, recv, args, kwargs, node, fr):
    t = contains(ip, recv, args[0], node)
    return VConst(t) if isinstance(t, bool) else KBool.wrap(t)


@method('set', 'add')
def _s_add(ip, recv, args, kwargs, node, fr):
    v = resolve(ip, args[0])
    if recv.ek is None:
        recv.ek = kind_of(v)
        recv.dom = z3.K(recv.ek.sort(), z3.BoolVal(False))
    ip.touch(recv)
    recv.dom = z3.Store(recv.dom, recv.ek.unwrap(v), z3.BoolVal(True))
    recv._writeback()
    return VConst(None)


@method('set', 'update')
def _s_update(ip, recv, args, kwargs, node, fr):
    for a in args:
        set_update(ip, recv, a)
    return VConst(None)


@method('set', 'discard', 'remove')
def _s_discard(ip, recv, args, kwargs, node, fr):
    if recv.ek is None:
        if node.func.attr == 'remove':
            raise PyRaise(VExc('KeyError'), node)
        return VConst(None)
    try:
        xt = recv.ek.unwrap(resolve(ip, args[0]))
    except TypeError:
        # an element of another Python type (touched.discard(None) on a set of bytes) is not a member
        if node.func.attr == 'remove':
            raise PyRaise(VExc('KeyError'), node)
        return VConst(None)
    if node.func.attr == 'remove' and not ip.branch(z3.Select(recv.dom, xt)):
        raise PyRaise(VExc('KeyError'), node)
    ip.touch(recv)
    recv.dom = z3.Store(recv.dom, xt, z3.BoolVal(False))
    recv._writeback()
    return VConst(None)


@method('set', 'clear')
def _s_clear(ip, recv, args, kwargs, node, fr):
    if recv.ek is not None:
        ip.touch(recv)
        recv.dom = z3.K(recv.ek.sort(), z3.BoolVal(False))
        recv._writeback()
    return VConst(None)


@method('set', 'copy')
def _s_copy(ip, recv, args, kwargs, node, fr):
    return VSet(recv.dom, recv.ek)


def set_binop(ip, recv, args, op):
    r = VSet(recv.dom, recv.ek)
    for a in args:
        dom, ek = as_set(ip, a)
        if ek is None:
            if op == 'inter':
                return VSet(None, None)
            continue
        if r.ek is None:
            if op == 'union':
                r = VSet(dom, ek)
            continue
        r.dom = {'inter': z3.SetIntersect, 'union': z3.SetUnion, 'diff': z3.SetDifference}[op](r.dom, dom)
    return r


@method('set', 'intersection')
def _s_inter(ip, recv, args, kwargs, node, fr):
    return set_binop(ip, recv, args, 'inter')


@method('set', 'union')
def _s_union(ip, recv, args, kwargs, node, fr):
    return set_binop(ip, recv, args, 'union')


@method('set', 'difference')
def _s_diff(ip, recv, args, kwargs, node, fr):
    return set_binop(ip, recv, args, 'diff')


@method('set', 'difference_update')
def _s_diffu(ip, recv, args, kwargs, node, fr):
    r = set_binop(ip, recv, args, 'diff')
    ip.touch(recv)
    recv.dom = r.dom
    recv._writeback()
    return VConst(None)


@method('set', 'issubset')
def _s_subset(ip, recv, args, kwargs, node, fr):
    dom, ek = as_set(ip, args[0])
    if recv.ek is None:
        return VConst(True)
    if ek is None:
        t = truth(ip, recv)
        return KBool.wrap(z3.Not(t))
    return KBool.wrap(z3.IsSubset(recv.dom, dom))


@method('dict', 'get')
def _d_get(ip, recv, args, kwargs, node, fr):
    default = args[1] if len(args) > 1 else VConst(None)
    if recv.rec is not None:
        k = resolve(ip, args[0])
        if is_rec_key(k):
            return recv.rec.get(k.py, default)
        raise EngineError('record dictionary .get with a symbolic key')
    if recv.kk is None:
        return default
    try:
        kt = recv.kk.unwrap(resolve(ip, args[0]))
    except TypeError:
        return default
    if ip.mode != 'code':
        return ip.ite(z3.Select(recv.dom, kt), recv.vk.wrap(z3.Select(recv.map, kt), ip), default)
    if ip.branch(z3.Select(recv.dom, kt)):
        v = recv.vk.wrap(z3.Select(recv.map, kt), ip)
        link(ip, v, recv, ('dict', kt))
        return v
    return default


@method('dict', 'pop')
def _d_pop(ip, recv, args, kwargs, node, fr):
    if recv.kk is None:
        if len(args) > 1:
            return args[1]
        raise PyRaise(VExc('KeyError'), node)
    kt = recv.kk.unwrap(resolve(ip, args[0]))
    if ip.branch(z3.Select(recv.dom, kt)):
        v = recv.vk.wrap(z3.Select(recv.map, kt), ip)
        ip.touch(recv)
        recv.dom = z3.Store(recv.dom, kt, z3.BoolVal(False))
        recv._writeback()
        return v
    if len(args) > 1:
        return args[1]
    raise PyRaise(VExc('KeyError'), node)


@method('dict', 'setdefault')
def _d_setdefault(ip, recv, args, kwargs, node, fr):
    key = resolve(ip, args[0])
    dv = args[1] if len(args) > 1 else VConst(None)
    if recv.kk is None:
        recv.ensure_kinds(kind_of(key), kind_of(resolve(ip, dv)))
    kt = recv.kk.unwrap(key)
    if not ip.branch(z3.Select(recv.dom, kt)):
        dict_store(ip, recv, kt, resolve(ip, dv))
    v = recv.vk.wrap(z3.Select(recv.map, kt), ip)
    link(ip, v, recv, ('dict', kt))
    return v


@method('dict', 'items')
def _d_items(ip, recv, args, kwargs, node, fr):
    if recv.rec is not None:
        return VTuple(tuple(VTuple((VConst(k), v)) for k, v in recv.rec.items()))
    return VDictItems(recv, 'items')


@method('dict', 'keys')
def _d_keys(ip, recv, args, kwargs, node, fr):
    return VDictItems(recv, 'keys')


@method('dict', 'values')
def _d_values(ip, recv, args, kwargs, node, fr):
    return VDictItems(recv, 'values')


@method('dict', 'clear')
def _d_clear(ip, recv, args, kwargs, node, fr):
    if recv.kk is not None:
        ip.touch(recv)
        recv.dom = z3.K(recv.kk.sort(), z3.BoolVal(False))
        recv._writeback()
    return VConst(None)


@method('dict', 'copy')
def _d_copy(ip, recv, args, kwargs, node, fr):
    return VDict(recv.map, recv.dom, recv.kk, recv.vk, recv.default)


@method('dict', 'update')
def _d_update(ip, recv, args, kwargs, node, fr):
    o = resolve(ip, args[0])
    if not isinstance(o, VDict):
        raise EngineError('dict.update from non-dict')
    if recv.rec is not None or o.rec is not None:
        if (recv.kk is not None) or (o.kk is not None):
            raise EngineError('update between a record and a symbolic dictionary')
        if recv.rec is None:
            recv.rec = {}
        ip.touch(recv)
        recv.rec.update(o.rec or {})
        return VConst(None)
    if o.kk is None:
        return VConst(None)
    if recv.kk is None:
        recv.ensure_kinds(o.kk, o.vk)
    ip.touch(recv)
    x = z3.Const(ip.fresh_name('k'), recv.kk.sort())
    recv.map = z3.Lambda([x], z3.If(z3.Select(o.dom, x), z3.Select(o.map, x), z3.Select(recv.map, x)))
    recv.dom = z3.SetUnion(recv.dom, o.dom)
    recv._writeback()
    return VConst(None)


@method('bytes', 'extend')
def _by_extend(ip, recv, args, kwargs, node, fr):
    '''bytearray.extend on a bytearray held in a container slot (d[k].extend(b)): the slot is rewritten'''
    if not isinstance(recv, VBytes) or getattr(recv, 'parent', None) is None:
        raise EngineError('extend on a bytes value that is not a bytearray slot of a container')
    tb = KBytes.unwrap(resolve(ip, args[0]))
    r = z3.Concat(recv.t, tb)
    ip.assume(seq_len(r) == seq_len(recv.t) + seq_len(tb))
    recv.t = r
    recv.parent(recv)
    return VConst(None)


@method('bytes', 'fromhex')
def _b_fromhex(ip, recv, args, kwargs, node, fr):
    '''T-HEX'''
    ip.assumed.add('T-HEX')
    v = resolve(ip, args[0])
    if isinstance(v, VConst) and isinstance(v.py, str):
        try:
            return VConst(bytes.fromhex(v.py))
        except ValueError:
            raise PyRaise(VExc('ValueError'), node)
    if not isinstance(v, VStr):
        raise PyRaise(VExc('TypeError'), node)
    ok = UF('is_hex', z3.StringSort(), z3.BoolSort())(v.t)
    if not ip.branch(ok):
        raise PyRaise(VExc('ValueError'), node)
    r = UF('fromhex', z3.StringSort(), z3.SeqSort(ByteSort))(v.t)
    return VBytes(r)


@method('bytes', 'hex')
def _b_hex(ip, recv, args, kwargs, node, fr):
    if isinstance(recv, VConst):
        return VConst(recv.py.hex())
    r = UF('tohex', z3.SeqSort(ByteSort), z3.StringSort())(recv.t)
    ip.assume(seq_len(r) == 2 * seq_len(recv.t))
    return VStr(r)


@method('U', 'hex')
def _u_hex(ip, recv, args, kwargs, node, fr):
    r = UF('tohex_' + recv.kind.name, recv.kind.sort(), z3.StringSort())(recv.t)
    return VStr(r)


@method('bytes', 'join')
def _b_join(ip, recv, args, kwargs, node, fr):
    v = resolve(ip, args[0])
    if not (isinstance(recv, VConst) and recv.py == b''):
        raise EngineError('bytes.join with a separator')
    if isinstance(v, VTuple):
        parts = [KBytes.unwrap(resolve(ip, x)) for x in v.items]
        if not parts:
            return VConst(b'')
        return VBytes(z3.Concat(*parts) if len(parts) > 1 else parts[0])
    if isinstance(v, VList):
        if v.ek is None:
            return VConst(b'')
        if v.ek != KBytes:
            raise EngineError('join of non-bytes list')
        r = ip.V.bjoin(v.arr, v.n)
        # length of a join of equally long pieces (the only length fact about joins the code under contract relies on:
        # 5-byte history entries padded to 8 bytes)
        j = z3.Int(ip.fresh_name('j'))
        for L in (8, 5, 32, 80):
            ip.assume(z3.Implies(z3.ForAll([j], z3.Implies(z3.And(0 <= j, j < v.n), seq_len(z3.Select(v.arr, j)) == L)),
                                 seq_len(r) == L * v.n))
        ip.assume(seq_len(r) >= 0)
        return VBytes(r)
    raise EngineError(f'bytes.join of {v!r}')


@method('str', 'join')
def _s_join(ip, recv, args, kwargs, node, fr):
    resolve(ip, args[0])
    ip.assumed.add('T-STR')
    return fresh_str(ip, 'join')


@method('str', 'format')
def _s_format(ip, recv, args, kwargs, node, fr):
    ip.assumed.add('T-STR')
    return fresh_str(ip, 'format')


@method('str', 'lower', 'upper', 'strip')
def _s_lower(ip, recv, args, kwargs, node, fr):
    if isinstance(recv, VConst):
        return VConst(getattr(recv.py, node.func.attr)())
    f = UF('str_' + node.func.attr, z3.StringSort(), z3.StringSort())
    return VStr(f(recv.t))


@method('str', 'startswith', 'endswith')
def _s_startswith(ip, recv, args, kwargs, node, fr):
    a = resolve(ip, args[0])
    if isinstance(a, VTuple):
        ts = [(_s_startswith(ip, recv, [x], kwargs, node, fr)) for x in a.items]
        return KBool.wrap(z3.Or(*[bool_term(t) for t in ts]))
    fn = z3.PrefixOf if node.func.attr == 'startswith' else z3.SuffixOf
    return KBool.wrap(fn(KStr.unwrap(a), KStr.unwrap(recv)))


@method('str', 'encode')
def _s_encode(ip, recv, args, kwargs, node, fr):
    if isinstance(recv, VConst):
        return VConst(recv.py.encode())
    f = UF('str_encode', z3.StringSort(), z3.SeqSort(ByteSort))
    r = f(recv.t)
    ip.assume((seq_len(r) == 0) == (seq_len(recv.t) == 0))
    return VBytes(r)


@method('str', 'split')
def _s_split(ip, recv, args, kwargs, node, fr):
    r = KList(KStr).fresh(ip, 'split')
    ip.assume(r.n >= 1)
    return r


@method('int', 'bit_length')
def _i_bit_length(ip, recv, args, kwargs, node, fr):
    if isinstance(recv, VConst):
        return VConst(recv.py.bit_length())
    m = int_term(recv)
    a = z3.If(m >= 0, m, -m)
    r = z3.Int(ip.fresh_name('bl'))
    ip.assume(r >= 0)
    ip.assume(z3.Implies(a == 0, r == 0))
    ip.assume(z3.Implies(a > 0, z3.And(r >= 1, ip.pow2(r - 1) <= a, a < ip.pow2(r))))
    ip.assumed.add('T-BITLEN: int.bit_length(m) = least k with |m| < 2^k')
    return VInt(r)


@method('opaque', 'set', 'clear', 'release', 'cancel', 'close', 'info', 'debug', 'warning', 'error', 'exception', 'spawn')
def _o_noop(ip, recv, args, kwargs, node, fr):
    return VConst(None)


@method('opaque', 'wait', 'acquire')
def _o_wait(ip, recv, args, kwargs, node, fr):
    return VConst(None)


@method('opaque', 'is_set', 'locked')
def _o_is_set(ip, recv, args, kwargs, node, fr):
    return KBool.fresh(ip, 'flag')


# ---------------------------------------------------------------------------------------------
# context managers

def cm_enter(ip, cm, item, fr):
    cm = resolve(ip, cm)
    if isinstance(cm, VOpaque) or (isinstance(cm, VU) and cm.kind.name == 'Opaque'):
        # lock / semaphore: transparent in the cooperative model (it only delays)
        ip.assumed.add('A-COOP: locks and semaphores only delay the holder; they are transparent to the function under contract')
        return cm
    if isinstance(cm, VObj):
        spec = ip.reg.classes.get(cm.cls)
        if spec is not None and '__enter__' in spec.methods:
            c = ip.reg.contracts[spec.methods['__enter__']]
            ip.apply_contract_env(c, {'self': cm}, item.context_expr, fr)
            return cm
        m = find_method(ip, *cm.cls.split(':'), '__enter__') if not cm.cls.startswith('ext:') else None
        if m is not None:
            f = VFunc('repo', '__enter__', target=m[1], self_val=cm)
            return ip.call(f, [], {}, item.context_expr, fr)
    if isinstance(cm, VObj) and hasattr(cm, 'cm_enter'):
        return cm.cm_enter(ip)
    raise EngineError(f'context manager {cm!r} is not modelled')


def cm_exit(ip, cm, exc, fr, node):
    cm = resolve(ip, cm)
    if isinstance(cm, VOpaque) or (isinstance(cm, VU) and cm.kind.name == 'Opaque'):
        return
    if isinstance(cm, VObj):
        spec = ip.reg.classes.get(cm.cls)
        if spec is not None and '__exit__' in spec.methods:
            c = ip.reg.contracts[spec.methods['__exit__']]
            ip.apply_contract_env(c, {'self': cm, 'failed': VConst(exc is not None)}, node, fr)
            return
        m = find_method(ip, *cm.cls.split(':'), '__exit__') if not cm.cls.startswith('ext:') else None
        if m is not None:
            f = VFunc('repo', '__exit__', target=m[1], self_val=cm)
            none = VConst(None)
            ip.call(f, [none, none, none], {}, node, fr)
            return
    if isinstance(cm, VObj) and hasattr(cm, 'cm_exit'):
        return cm.cm_exit(ip, exc)
    raise EngineError(f'context manager {cm!r} is not modelled')


# ---------------------------------------------------------------------------------------------
# comprehensions

class QuantScope:
    '''Evaluate an expression for an arbitrary index/element: partial operations become
    obligations (mode 'quant'); facts assumed inside are discarded afterwards.'''

    def __init__(self, ip, hyps):
        self.ip, self.hyps = ip, hyps

    def __enter__(self):
        ip = self.ip
        self.saved_mode = ip.mode
        self.npc = len(ip.pc)
        self.pow2_seen = set(ip.pow2_seen)
        ip.solver.push()
        for h in self.hyps:
            ip.assume(h)
        self.saved_collect = ip.quant_collect
        if ip.mode == 'code':
            ip.mode = 'quant'
            ip.quant_collect = []
        self.collected = ip.quant_collect
        return self

    def __exit__(self, *a):
        ip = self.ip
        ip.solver.pop()
        del ip.pc[self.npc:]
        ip.pow2_seen = self.pow2_seen
        ip.mode = self.saved_mode
        ip.quant_collect = self.saved_collect
        return False


def comprehension_outcome(ip, scope, bound, rng, node):
    '''After evaluating a comprehension element for an arbitrary index: either every element
    evaluates without exception, or some element raises one of the recorded classes.'''
    col = scope.collected if scope.saved_mode == 'code' else None
    if not col:
        return
    types = sorted({t for t, _ in col})
    any_cond = z3.Or(*[c for _, c in col])
    opts = ['ok'] + types
    # prune impossible raises first (cheap, keeps the path count down)
    d = ip.choose(len(opts), opts)
    if d == 0:
        ip.assume(z3.ForAll([bound], z3.Implies(rng, z3.Not(any_cond))))
        ip.end_if_infeasible()
        return
    typ = opts[d]
    cond = z3.Or(*[c for t, c in col if t == typ])
    w = z3.Const(ip.fresh_name('w'), bound.sort())
    ip.assume(z3.substitute(z3.And(rng, cond), (bound, w)))
    ip.end_if_infeasible()
    raise PyRaise(VExc(typ), node)


def name_set(ip, x, body, ek):
    '''A fresh array constant S with  forall x. S[x] == body  (keeps Select terms usable as
    quantifier patterns, which beta-reduced lambdas are not).'''
    S = z3.Const(ip.fresh_name('S'), z3.ArraySort(ek.sort(), z3.BoolSort()))
    ip.assume(z3.ForAll([x], z3.Select(S, x) == body, patterns=[z3.Select(S, x)]))
    return S


def record_as_j(ip, v, J):
    '''A record dictionary built per element of a comprehension (a JSON request object): element J of the result is an
    opaque JSON object with exactly these keys; its values are not tracked beyond this point.'''
    s_ = J_sort()
    f = z3.Function(ip.fresh_name('reqobj'), z3.IntSort(), z3.IntSort())
    ip.assumed.add('A-OPAQUE-PAYLOAD: request objects built in a comprehension are passed on as opaque non-empty JSON '
                   'objects (their number is tracked, their contents are not)')
    return VJ(s_.JDict(f(J)))


def comprehension(ip, e, fr, kind):
    if len(e.generators) != 1:
        raise EngineError('comprehension with several generators')
    g = e.generators[0]
    src = resolve(ip, ip.eval(g.iter, fr))
    is_dict = isinstance(e, ast.DictComp)
    items = ip.concrete_items(src)
    sub = Frame(fr.mod, fr.fkey, {}, parent=fr, contract=None)
    sub.old = fr.old
    sub.scratch = True        # comprehension scope: its variables are not the function's
    if items is not None:
        out = []
        for x in items:
            ip.assign(g.target, x, sub)
            if all(ip.branch_on(c, sub) if ip.mode == 'code' else truth(ip, ip.eval(c, sub)) is True
                   for c in g.ifs):
                if is_dict:
                    out.append((ip.eval(e.key, sub), ip.eval(e.value, sub)))
                else:
                    out.append(ip.eval(e.elt, sub))
        if is_dict:
            d = VDict(None, None, None, None)
            for k, v in out:
                set_item(ip, d, k, v, e)
            return d
        if kind == 'set':
            s = VSet(None, None)
            for v in out:
                _s_add(ip, s, [v], {}, e, fr)
            return s
        if kind == 'gen':
            return VTuple(out)
        return tuple_to_list(VTuple(out)) if out else VList(None, z3.IntVal(0), None)
    if is_dict:
        # {k(x): v(x) for x in <symbolic list>} : domain = the keys that occur; a key occurring several times keeps the
        # value of its LAST occurrence (witness function `last`)
        if not g.ifs and isinstance(src, VSet) and isinstance(g.target, ast.Name) and isinstance(e.key, ast.Name) \
                and e.key.id == g.target.id:
            # {x: f(x) for x in <set>}: domain = the set, value f(x) for every member
            if src.ek is None:
                return VDict(None, None, None, None)
            X = z3.Const(ip.fresh_name('cx'), src.ek.sort())
            with QuantScope(ip, [z3.Select(src.dom, X)]) as scope:
                ip.assign(g.target, src.ek.wrap(X, None), sub)
                vv = resolve(ip, ip.eval(e.value, sub))
                vk = kind_of(vv)
                vt = vk.unwrap(vv)
            comprehension_outcome(ip, scope, X, z3.Select(src.dom, X), e)
            d = KDict(src.ek, vk).fresh(ip, 'dcomp')
            ip.assume(z3.ForAll([X], z3.Select(d.dom, X) == z3.Select(src.dom, X), patterns=[z3.Select(d.dom, X)]))
            ip.assume(z3.ForAll([X], z3.Implies(z3.Select(src.dom, X), z3.Select(d.map, X) == vt), patterns=[z3.Select(d.map, X)]))
            return d
        if g.ifs or not isinstance(src, VList) or 'enum_of' in src.ghost:
            raise EngineError('dict comprehension over this symbolic source')
        if src.ek is None:
            return VDict(None, None, None, None)
        n = src.n
        J = z3.Int(ip.fresh_name('cj'))
        elem = src.ek.wrap(z3.Select(src.arr, J), None)
        with QuantScope(ip, [J >= 0, J < n]) as scope:
            ip.assign(g.target, elem, sub)
            kv = resolve(ip, ip.eval(e.key, sub))
            vv = resolve(ip, ip.eval(e.value, sub))
            kk, vk = kind_of(kv), kind_of(vv)
            kt, vt = kk.unwrap(kv), vk.unwrap(vv)
        comprehension_outcome(ip, scope, J, z3.And(J >= 0, J < n), e)
        d = KDict(kk, vk).fresh(ip, 'dcomp')
        last = z3.Function(ip.fresh_name('last'), kk.sort(), z3.IntSort())
        kx = z3.Const(ip.fresh_name('k'), kk.sort())
        at = lambda term, t: z3.substitute(term, (J, t))
        ip.assume(z3.ForAll([J], z3.Implies(z3.And(0 <= J, J < n), z3.And(z3.Select(d.dom, kt), J <= last(kt))),
                            patterns=[z3.Select(src.arr, J)]))
        ip.assume(z3.ForAll([kx], z3.Implies(z3.Select(d.dom, kx),
                                             z3.And(0 <= last(kx), last(kx) < n, at(kt, last(kx)) == kx,
                                                    z3.Select(d.map, kx) == at(vt, last(kx)))),
                            patterns=[z3.Select(d.dom, kx)]))
        d.ghost = getattr(d, 'ghost', {})
        return d
    if isinstance(src, VDictItems) and src.what == 'values':
        raise EngineError('comprehension over dict values')
    if isinstance(src, (VRange,)) or (isinstance(src, VList) and 'enum_of' not in src.ghost):
        if isinstance(src, VRange):
            n = src.count_term()
            J = z3.Int(ip.fresh_name('cj'))
            elem = VInt(int_term(src.start) + J * int_term(src.step))
        else:
            n = src.n
            J = z3.Int(ip.fresh_name('cj'))
            if src.ek is None:
                return VList(None, z3.IntVal(0), None) if kind != 'set' else VSet(None, None)
            elem = src.ek.wrap(z3.Select(src.arr, J), None) if not isinstance(src.ek, KOpt) else None
            if elem is None:
                raise EngineError('comprehension over a list of optionals')
        with QuantScope(ip, [J >= 0, J < n]) as scope:
            ip.assign(g.target, elem, sub)
            conds = []
            for c in g.ifs:
                t = truth(ip, ip.eval(c, sub))
                t = z3.BoolVal(t) if isinstance(t, bool) else t
                conds.append(t)
                ip.assume(t)
            v = resolve(ip, ip.eval(e.elt, sub))
            if isinstance(v, VDict) and v.rec is not None:
                v = record_as_j(ip, v, J)
            ek = kind_of(v)
            vt = ek.unwrap(v)
        comprehension_outcome(ip, scope, J, z3.And(J >= 0, J < n, *conds), e)
        cond = z3.And(*conds) if conds else None
        if kind == 'set':
            y = z3.Const(ip.fresh_name('y'), ek.sort())
            body = z3.And(0 <= J, J < n, vt == y)
            if cond is not None:
                body = z3.And(body, cond)
            return VSet(z3.Lambda([y], z3.Exists([J], body)), ek)
        if cond is None:
            return VList(def_array(ip, J, vt, 'comp'), n, ek)
        # filtered subsequence: result R with a strictly increasing index map
        R = KList(ek).fresh(ip, 'filt')
        idx = z3.Function(ip.fresh_name('fidx'), z3.IntSort(), z3.IntSort())
        inv = z3.Function(ip.fresh_name('finv'), z3.IntSort(), z3.IntSort())
        k, k2 = z3.Int(ip.fresh_name('k')), z3.Int(ip.fresh_name('k'))
        vt_at = lambda t: z3.substitute(vt, (J, t))
        cond_at = lambda t: z3.substitute(cond, (J, t))
        ip.assume(R.n <= n)
        ip.assume(z3.ForAll([k], z3.Implies(z3.And(0 <= k, k < R.n),
                                            z3.And(0 <= idx(k), idx(k) < n, cond_at(idx(k)),
                                                   z3.Select(R.arr, k) == vt_at(idx(k)), inv(idx(k)) == k)),
                            patterns=[z3.Select(R.arr, k)]))
        ip.assume(z3.ForAll([k, k2], z3.Implies(z3.And(0 <= k, k < k2, k2 < R.n), idx(k) < idx(k2)),
                            patterns=[z3.MultiPattern(idx(k), idx(k2))]))
        ip.assume(z3.ForAll([J], z3.Implies(z3.And(0 <= J, J < n, cond),
                                            z3.And(0 <= inv(J), inv(J) < R.n, idx(inv(J)) == J)),
                            patterns=[inv(J)]))
        R.ghost['filter_of'] = (idx, inv)
        return R
    # set-like source
    dom, ek = as_set(ip, src)
    if ek is None:
        return VList(None, z3.IntVal(0), None) if kind != 'set' else VSet(None, None)
    X = z3.Const(ip.fresh_name('cx'), ek.sort())
    with QuantScope(ip, [z3.Select(dom, X)]) as scope:
        elem = ek.wrap(X, None)
        if isinstance(src, VDictItems) and src.what == 'items':
            elem = VTuple((elem, src.d.vk.wrap(z3.Select(src.d.map, X), None)))
        ip.assign(g.target, elem, sub)
        conds = []
        for c in g.ifs:
            t = truth(ip, ip.eval(c, sub))
            t = z3.BoolVal(t) if isinstance(t, bool) else t
            conds.append(t)
            ip.assume(t)
        v = resolve(ip, ip.eval(e.elt, sub))
        rk = kind_of(v)
        vt = rk.unwrap(v)
    comprehension_outcome(ip, scope, X, z3.And(z3.Select(dom, X), *conds), e)
    member = z3.And(z3.Select(dom, X), *conds)
    identity = vt.eq(X)
    if identity:
        sset = name_set(ip, X, member, ek)
    else:
        y = z3.Const(ip.fresh_name('y'), rk.sort())
        sset = name_set(ip, y, z3.Exists([X], z3.And(member, vt == y)), rk)
    if kind == 'set':
        return VSet(sset, rk)
    if not identity:
        # a list of images, one per source element, arbitrary order
        base = enum_list(ip, name_set(ip, X, member, ek), ek)
        j = z3.Int(ip.fresh_name('j'))
        arr = def_array(ip, j, z3.substitute(vt, (X, z3.Select(base.arr, j))), 'image')
        return VList(arr, base.n, rk)
    return enum_list(ip, sset, rk)


# ---------------------------------------------------------------------------------------------
# specification vocabulary

SPEC_FUNCS = {'old', 'forall', 'exists', 'implies', 'iff', 'ite', 'dom', 'union', 'inter', 'diff', 'subset',
              'empty', 'add', 'remove', 'use', 'check', 'assume', 'pow2', 'store', 'lookup', 'has',
              'is_none', 'some', 'slice_', 'concat', 'listof', 'setof', 'card', 'fresh', 'havoc', 'tup',
              'seq_eq', 'div', 'mod', 'bv', 'apply', 'let', 'take', 'snoc', 'copy', 'drop', 'sub', 'is_err', 'okval', 'truthy', 'truthy_j', 'py_eq', 'bjoin', 'fn_is'}


def find_old(fr):
    f = fr
    while f is not None:
        if f.old is not None:
            return f.old
        f = f.parent
    return None


def spec_call(ip, e, fr):
    if not isinstance(e.func, ast.Name) or e.func.id not in SPEC_FUNCS or fr.has(e.func.id):
        return NotImplemented
    name = e.func.id
    ev = lambda n: ip.eval(n, fr)
    bt = lambda n: (lambda t: z3.BoolVal(t) if isinstance(t, bool) else t)(truth(ip, ev(n)))
    if name == 'old':
        old = find_old(fr)
        if old is None:
            raise EngineError('old() used where no pre-state exists')
        of = Frame(fr.mod, '<old>', dict(old), parent=fr)
        return ip.eval(e.args[0], of)
    if name in ('forall', 'exists'):
        lam = e.args[0]
        if not isinstance(lam, ast.Lambda):
            raise EngineError('forall/exists need a lambda with kind defaults')
        names = [a.arg for a in lam.args.args]
        kinds = [ev(d) for d in lam.args.defaults]
        if len(kinds) != len(names):
            raise EngineError('every bound variable needs a kind: forall(lambda x=Int: ...)')
        sub = Frame(fr.mod, fr.fkey, {}, parent=fr)
        vars_ = []
        for n, k in zip(names, kinds):
            if not isinstance(k, VKind):
                raise EngineError(f'bound variable {n}: not a kind')
            c = z3.Const(ip.fresh_name('q_' + n), k.k.sort())
            vars_.append(c)
            sub.env[n] = k.k.wrap(c, None)
        body = truth(ip, ip.eval(lam.body, sub))
        body = z3.BoolVal(body) if isinstance(body, bool) else body
        pats = []
        for kw in e.keywords:
            if kw.arg == 'pattern':
                pn = kw.value.elts if isinstance(kw.value, (ast.List, ast.Tuple)) else [kw.value]
                for p in pn:
                    pv = ip.eval(p, sub)
                    pats.append(kind_of(pv).unwrap(pv))
        q = z3.ForAll if name == 'forall' else z3.Exists
        if pats:
            return KBool.wrap(q(vars_, body, patterns=[z3.MultiPattern(*pats) if len(pats) > 1 else pats[0]]))
        return KBool.wrap(q(vars_, body))
    if name == 'implies':
        a = bt(e.args[0])
        sa = z3.simplify(a) if not isinstance(a, bool) else z3.BoolVal(a)
        if z3.is_false(sa):
            return VConst(True)          # the consequent may be ill-typed on this path (e.g. some(x)[0] with x None)
        return KBool.wrap(z3.Implies(a, bt(e.args[1])))
    if name == 'iff':
        return KBool.wrap(bt(e.args[0]) == bt(e.args[1]))
    if name == 'ite':
        c = z3.simplify(bt(e.args[0]))
        if z3.is_true(c):
            return ev(e.args[1])
        if z3.is_false(c):
            return ev(e.args[2])
        return ip.ite(c, ev(e.args[1]), ev(e.args[2]))
    if name == 'take':
        l = ev(e.args[0])
        return VList(l.arr, int_term(ev(e.args[1])), l.ek)
    if name == 'drop':
        l = ev(e.args[0])
        k = int_term(ev(e.args[1]))
        j = z3.Int(ip.fresh_name('j'))
        return VList(def_array(ip, j, z3.Select(l.arr, j + k), 'drop'), z3.simplify(l.n - k), l.ek)
    if name == 'sub':
        # sub(l, a, n): the n elements of l starting at a
        l = ev(e.args[0])
        a = int_term(ev(e.args[1]))
        j = z3.Int(ip.fresh_name('j'))
        return VList(def_array(ip, j, z3.Select(l.arr, j + a), 'sub'), int_term(ev(e.args[2])), l.ek)
    if name == 'snoc':
        l = ev(e.args[0])
        x = ev(e.args[1])
        return VList(z3.Store(l.arr, l.n, l.ek.unwrap(x)), z3.simplify(l.n + 1), l.ek)
    if name == 'copy':
        v = ev(e.args[0])
        if isinstance(v, VList):
            return VList(v.arr, v.n, v.ek)
        if isinstance(v, VSet):
            return VSet(v.dom, v.ek)
        if isinstance(v, VDict):
            return VDict(v.map, v.dom, v.kk, v.vk, v.default)
        return v
    if name == 'listof':
        k = ev(e.args[0]).k
        return VList(empty_array(k), z3.IntVal(0), k)
    if name == 'let':
        # let(lambda x=expr: body)
        lam = e.args[0]
        sub = Frame(fr.mod, fr.fkey, {}, parent=fr)
        for a, d in zip(lam.args.args, lam.args.defaults):
            sub.env[a.arg] = ip.eval(d, sub)
        return ip.eval(lam.body, sub)
    if name == 'pow2':
        return KInt.wrap(ip.pow2(int_term(ev(e.args[0]))))
    if name == 'div':
        return KInt.wrap(py_floordiv(int_term(ev(e.args[0])), int_term(ev(e.args[1]))))
    if name == 'mod':
        return KInt.wrap(py_mod(int_term(ev(e.args[0])), int_term(ev(e.args[1]))))
    if name == 'dom':
        d = ev(e.args[0])
        dom, ek = as_set(ip, d)
        return VSet(dom, ek)
    if name in ('union', 'inter', 'diff', 'subset'):
        a, ka = as_set(ip, ev(e.args[0]))
        b, kb = as_set(ip, ev(e.args[1]))
        k = ka or kb
        if k is None:
            raise EngineError('set operation on two empty literals')
        a = a if a is not None else z3.K(k.sort(), z3.BoolVal(False))
        b = b if b is not None else z3.K(k.sort(), z3.BoolVal(False))
        if name == 'subset':
            return KBool.wrap(z3.IsSubset(a, b))
        f = {'union': z3.SetUnion, 'inter': z3.SetIntersect, 'diff': z3.SetDifference}[name]
        return VSet(f(a, b), k)
    if name == 'empty':
        k = ev(e.args[0]).k
        return VSet(z3.K(k.sort(), z3.BoolVal(False)), k)
    if name in ('add', 'remove'):
        a, ka = as_set(ip, ev(e.args[0]))
        x = ev(e.args[1])
        if ka is None:
            ka = kind_of(x)
            a = z3.K(ka.sort(), z3.BoolVal(False))
        return VSet(z3.Store(a, ka.unwrap(x), z3.BoolVal(name == 'add')), ka)
    if name == 'has':
        t = contains(ip, ev(e.args[0]), ev(e.args[1]), e)
        return KBool.wrap(z3.BoolVal(t) if isinstance(t, bool) else t)
    if name == 'lookup':
        d = ev(e.args[0])
        k = ev(e.args[1])
        return d.vk.wrap(z3.Select(d.map, d.kk.unwrap(k)), None)
    if name == 'store':
        d = ev(e.args[0])
        k, v = ev(e.args[1]), ev(e.args[2])
        if isinstance(d, VDict):
            kt = d.kk.unwrap(k)
            return VDict(z3.Store(d.map, kt, d.vk.unwrap(v)), z3.Store(d.dom, kt, z3.BoolVal(True)), d.kk, d.vk)
        if isinstance(d, VList):
            return VList(z3.Store(d.arr, int_term(k), d.ek.unwrap(v)), d.n, d.ek)
        raise EngineError('store on this value')
    if name == 'truthy_j':
        # Python truthiness of a JSON value, as a term
        v = ev(e.args[0])
        return KBool.wrap(j_truthy_term(KJ.unwrap(v)))
    if name == 'py_eq':
        # Python `==` between a JSON value and an integer (numeric cross-type equality)
        return KBool.wrap(j_num_eq(KJ.unwrap(ev(e.args[0])), int_term(ev(e.args[1]))))
    if name == 'truthy':
        return KBool.wrap(bt(e.args[0]))
    if name == 'is_err':
        v = ev(e.args[0])
        if isinstance(v, VExc):
            return VConst(True)
        if type(v).__name__ == 'VExcOrTerm':
            return KBool.wrap(v.kind.sort().recognizer(1)(v.t))
        return VConst(False)
    if name == 'okval':
        v = ev(e.args[0])
        if type(v).__name__ == 'VExcOrTerm':
            return v.kind.inner.wrap(v.kind.sort().accessor(0, 0)(v.t), None)
        return v
    if name == 'is_none':
        v = resolve(ip, ev(e.args[0]))
        if isinstance(v, VOptTerm):
            return KBool.wrap(v.kind.sort().recognizer(0)(v.t))
        if isinstance(v, VJ):
            return KBool.wrap(J_sort().is_JNull(v.t))
        return VConst(isinstance(v, VConst) and v.py is None)
    if name == 'some':
        v = resolve(ip, ev(e.args[0]))
        if isinstance(v, VOptTerm):
            return v.kind.inner.wrap(v.kind.sort().accessor(1, 0)(v.t), None)
        return v
    if name == 'concat':
        a, b = ev(e.args[0]), ev(e.args[1])
        return binop(ip, ast.Add(), a, b, e)
    if name == 'fn_is':
        # fn_is(f, "name"): the function value f is the function of that name (which of two rules a conditional selected)
        f = ev(e.args[0])
        want = e.args[1].value
        if not isinstance(f, VFunc):
            raise EngineError('fn_is() expects a function value')
        return VConst(f.name == want or str(getattr(f, 'target', '')).endswith(':' + want) or str(getattr(f, 'target', '')).endswith('.' + want))
    if name == 'bjoin':
        # b''.join(list of bytes): the same uninterpreted function the code model uses
        v = ev(e.args[0])
        if not isinstance(v, VList):
            raise EngineError('bjoin() expects a list of bytes')
        if v.ek is None:
            return VConst(b'')
        return VBytes(ip.V.bjoin(v.arr, v.n))
    if name == 'card':
        return _len(ip, [ev(e.args[0])], {}, e, fr)
    if name == 'tup':
        return VTuple([ev(a) for a in e.args])
    if name == 'apply':
        f = ev(e.args[0])
        return ip.call(f, [ev(a) for a in e.args[1:]], {}, e, fr)
    if name == 'use':
        nm = e.args[0].value
        ax = ip.reg.axioms.get(nm)
        if ax is None:
            raise EngineError(f'unknown axiom/lemma {nm}')
        if len(e.args) - 1 != len(ax.params):
            raise EngineError(f'use({nm}): expected {len(ax.params)} arguments')
        # an argument written ANY stays universally quantified in the instance (needed when the goal's own bound variable
        # - e.g. "for every row k" - must meet the lemma)
        vals, qvars = [], []
        for a, (pn, pk) in zip(e.args[1:], ax.params.items()):
            if isinstance(a, ast.Name) and a.id == 'ANY':
                qv = z3.Const(ip.fresh_name('any_' + pn), pk.sort())
                qvars.append(qv)
                vals.append(pk.wrap(qv, ip))
            else:
                vals.append(ev(a))
        env = dict(zip(ax.params.keys(), vals))
        hyps = [ip.spec_bool(h, env) for h in ax.hyps]
        body = ip.spec_bool(ax.body, env)
        ip.V.used_axioms.add(nm)
        if qvars:
            if ax.kind == 'assumed':
                ip.assumed.add(f'assumed lemma {nm}')
            ip.assume(z3.ForAll(qvars, z3.Implies(z3.And(*hyps), body) if hyps else body))
            return VConst(None)
        if ax.kind == 'assumed':
            ip.assumed.add(f'assumed lemma {nm}')
        if ax.kind == 'induction':
            ip.assumed.add(f'induction principle (meta rule) applied to lemmas {ax.base}/{ax.step} giving {nm}')
        # a proved lemma / definition may always be assumed in the form hyps => conclusion
        ip.assume(z3.Implies(z3.And(*hyps), body) if hyps else body)
        return VConst(None)
    if name == 'check':
        lab = e.args[0].value
        ip.prove(f'{ip.cur_fn}.check.{lab}', bt(e.args[1]))
        return VConst(None)
    if name == 'assume':
        ip.assumed.add(f'ghost assume in {ip.cur_fn}: {ast.unparse(e.args[0])}')
        ip.assume(bt(e.args[0]))
        return VConst(None)
    if name == 'havoc':
        # ghost statement havoc(obj.field): the field takes an arbitrary value of its kind (effect of a callee that reaches
        # the object through a reference the contract cannot name)
        a = e.args[0]
        if not isinstance(a, ast.Attribute):
            raise EngineError('havoc() expects obj.field')
        obj = ev(a.value)
        ip.havoc_field(obj, a.attr)
        ip.touch(('field', obj.ident, a.attr))
        return VConst(None)
    if name == 'fresh':
        k = ev(e.args[0]).k
        return k.fresh(ip, 'g')
    raise EngineError(f'specification function {name} not implemented')


@builtin('math.log')
def _log(ip, args, kwargs, node, fr):
    '''T-LOG: math.log(n, 2) for an integer n >= 1 returns a double r close to log2 n; no
    exactness at powers of two is assumed (CPython computes log(n)/log(2) in floating point).'''
    ip.assumed.add('T-LOG: math.log(n, 2) = log2(n) up to a relative floating-point error; not exact at powers of two')
    x = resolve(ip, args[0])
    if len(args) != 2 or not (isinstance(resolve(ip, args[1]), VConst) and resolve(ip, args[1]).py == 2):
        if not (len(args) == 1 and getattr(node.func, 'id', getattr(node.func, 'attr', '')) == 'log2'):
            raise EngineError('math.log with a base other than 2')
    if not is_intlike(x):
        raise EngineError('math.log of a non-integer')
    n = int_term(x)
    if ip.branch(n <= 0):
        raise PyRaise(VExc('ValueError'), node)
    k = z3.Int(ip.fresh_name('lg'))
    r = z3.Real(ip.fresh_name('logr'))
    d = z3.Real(ip.fresh_name('ulp'))
    ip.assume(z3.And(k >= 0, ip.pow2(k) <= n, n < ip.pow2(k + 1)))
    ip.assume(z3.And(d > 0, d < z3.RealVal('1/4')))
    ip.assume(z3.And(r >= z3.ToReal(k) - d, r <= z3.ToReal(k) + 1 + d))
    return VReal(r)



def check_format_spec(ip, val, spec_node, node):
    '''f"{x:,d}": integer presentation types need an int (bool counts); a str raises ValueError,
    None / containers raise TypeError (T-STR covers everything else as total).'''
    if ip.mode != 'code':
        return
    if not all(isinstance(p, ast.Constant) for p in spec_node.values):
        return
    spec = ''.join(p.value for p in spec_node.values)
    if not spec:
        return
    v = resolve(ip, val)
    kind = spec[-1]
    if kind in 'dxXobn,':
        if is_intlike(v):
            return
        if isinstance(v, (VFloat, VReal)) or (isinstance(v, VConst) and isinstance(v.py, float)):
            if kind == ',':
                return
            raise PyRaise(VExc('ValueError'), node)
        if is_str(v):
            raise PyRaise(VExc('ValueError'), node)
        raise PyRaise(VExc('TypeError'), node)
    if kind in 'feEgG%':
        if is_intlike(v) or isinstance(v, (VFloat, VReal)) or (isinstance(v, VConst) and isinstance(v.py, float)):
            return
        if is_str(v):
            raise PyRaise(VExc('ValueError'), node)
        raise PyRaise(VExc('TypeError'), node)



def conforms(ip, v, kind):
    '''Does the (resolved) value have the Python type the kind stands for?  Returns (ok, value).'''
    from .values import KOpt, KList, KTuple, KSet, KDict, KObj, KConst, KOneOf, KRecord, KU
    from .dsl import KCallable
    if isinstance(kind, (KCallable, KConst, KOneOf, KRecord)) or kind.__class__.__name__ == 'KKindSpecFun':
        return True, v
    if kind is KJ:
        return True, v          # any JSON-representable value; kept as it is
    r = resolve(ip, v)
    if isinstance(kind, KOpt):
        if isinstance(r, VConst) and r.py is None:
            return True, r
        return conforms(ip, r, kind.inner)
    if kind is KInt:
        return is_intlike(r), r
    if kind is KBool:
        return isinstance(r, VBool) or (isinstance(r, VConst) and isinstance(r.py, bool)), r
    if kind is KReal:
        return is_intlike(r) or isinstance(r, (VReal, VFloat)) or (isinstance(r, VConst) and isinstance(r.py, float)), r
    if kind is KStr:
        return is_str(r), r
    if kind is KBytes:
        return is_bytes(r), r
    if isinstance(kind, KList):
        return isinstance(r, (VList, VTuple)), r
    if isinstance(kind, KTuple):
        return isinstance(r, VTuple) and len(r.items) == len(kind.elems), r
    if isinstance(kind, KSet):
        return isinstance(r, VSet), r
    if isinstance(kind, KDict):
        return isinstance(r, VDict), r
    if isinstance(kind, KObj):
        return isinstance(r, VObj), r
    if isinstance(kind, KU):
        return (isinstance(r, VU) and r.kind == kind) or (isinstance(r, VConst) and r.py in kind.consts), r
    return True, r



@builtin('get_event_loop')
def _get_event_loop(ip, args, kwargs, node, fr):
    return VOpaque('event loop')


@builtin('random.randrange')
def _randrange(ip, args, kwargs, node, fr):
    ip.assumed.add('T-RANDOM')
    lo, hi = (VConst(0), args[0]) if len(args) == 1 else (args[0], args[1])
    r = z3.Int(ip.fresh_name('rand'))
    ip.assume(z3.And(int_term(resolve(ip, lo)) <= r, r < int_term(resolve(ip, hi))))
    return VInt(r)



@method('jdict', 'get')
def _jd_get(ip, recv, args, kwargs, node, fr):
    default = args[1] if len(args) > 1 else VConst(None)
    k = resolve(ip, args[0])
    if not is_str(k):
        if isinstance(k, (VJList, VJDict, VList, VDict, VSet)):
            raise PyRaise(VExc('TypeError'), node)      # unhashable key
        return default                                  # JSON object keys are strings
    kt = KStr.unwrap(k)
    has = UF('jdict_has', z3.IntSort(), z3.StringSort(), z3.BoolSort())(recv.ident, kt)
    val = VJ(UF('jdict_get', z3.IntSort(), z3.StringSort(), J_sort())(recv.ident, kt))
    if ip.mode != 'code':
        raise EngineError('jdict.get in specification mode')
    if ip.branch(has):
        return val
    return default


@method('jterm', 'get')
def _jt_get(ip, recv, args, kwargs, node, fr):
    '''dict.get on a JSON term known (or, in a comprehension, required) to be an object'''
    s_ = J_sort()
    default = args[1] if len(args) > 1 else VConst(None)
    k = resolve(ip, args[0])
    if not is_str(k):
        raise EngineError('jterm.get with a non-string key')
    kt = KStr.unwrap(k)
    d = s_.jd(recv.t)
    has = UF('jdict_has', z3.IntSort(), z3.StringSort(), z3.BoolSort())(d, kt)
    return VJ(z3.If(has, UF('jdict_get', z3.IntSort(), z3.StringSort(), J_sort())(d, kt), KJ.unwrap(resolve(ip, default))))


@method('jdict', 'copy')
def _jd_copy(ip, recv, args, kwargs, node, fr):
    return recv


FUNCS['math.log2'] = _log



@builtin('next')
def _next(ip, args, kwargs, node, fr):
    v = resolve(ip, args[0])
    if isinstance(v, VOpaque):
        return VInt(z3.Int(ip.fresh_name('next')))      # itertools.count(): some fresh integer
    raise EngineError(f'next() of {v!r}')


@builtin('itertools.chain')
def _chain(ip, args, kwargs, node, fr):
    '''itertools.chain(a, b, ...) over lists / tuples of one element kind: the concatenation'''
    vs = [resolve(ip, a) for a in args]
    vs = [tuple_to_list(v) if isinstance(v, VTuple) else v for v in vs]
    if not vs or not all(isinstance(v, VList) for v in vs):
        raise EngineError('itertools.chain of these arguments')
    vs = [v for v in vs if v.ek is not None] or vs[:1]
    out = vs[0]
    for v in vs[1:]:
        j = z3.Int(ip.fresh_name('j'))
        arr = def_array(ip, j, z3.If(j < out.n, z3.Select(out.arr, j), z3.Select(v.arr, j - out.n)), 'chain')
        out = VList(arr, z3.simplify(out.n + v.n), out.ek)
    return out


@builtin('itertools.count')
def _count(ip, args, kwargs, node, fr):
    return VOpaque('itertools.count')


# ---------------------------------------------------------------------------------------------
# T-STRUCT: struct.Struct pack / unpack / unpack_from for the fixed-width formats the repository uses

STRUCT_FMT = {'<i': ('le', 4, True), '<q': ('le', 8, True), '<H': ('le', 2, False), '<I': ('le', 4, False),
              '<Q': ('le', 8, False), '>H': ('be', 2, False), '>I': ('be', 4, False), 'B': ('le', 1, False)}


def struct_funcs(order, signed):
    B = z3.SeqSort(ByteSort)
    tag = order + ('s' if signed else 'u')
    return (UF(f'{tag}_enc', z3.IntSort(), z3.IntSort(), B), UF(f'{tag}_dec', B, z3.IntSort()))


def struct_range(w, signed):
    return (-(1 << (8 * w - 1)), 1 << (8 * w - 1)) if signed else (0, 1 << (8 * w))


@method('Struct', 'pack')
def _st_pack(ip, recv, args, kwargs, node, fr):
    ip.assumed.add('T-STRUCT')
    order, w, signed = STRUCT_FMT[recv.fmt]
    v = resolve(ip, args[0])
    if not is_intlike(v):
        raise PyRaise(VExc('struct.error'), node)
    n = int_term(v)
    lo, hi = struct_range(w, signed)
    ip.raise_if(z3.Or(n < lo, n >= hi), 'struct.error', node)
    enc, dec = struct_funcs(order, signed)
    if w == 1 and not signed:
        bv = z3.Int2BV(n, 8)
        ip.assume(z3.BV2Int(bv) == n)          # 0 <= n < 256 on this path
        return VBytes(z3.Unit(bv))
    r = enc(n, w)
    ip.assume(z3.Length(r) == w)
    ip.assume(dec(r) == n)
    return VBytes(r)


def struct_unpack(ip, recv, t, node):
    order, w, signed = STRUCT_FMT[recv.fmt]
    enc, dec = struct_funcs(order, signed)
    n = dec(t)
    lo, hi = struct_range(w, signed)
    ip.assume(z3.Implies(z3.Length(t) == w, z3.And(n >= lo, n < hi, enc(n, w) == t)))
    return VTuple((VInt(n),))


@method('Struct', 'unpack')
def _st_unpack(ip, recv, args, kwargs, node, fr):
    ip.assumed.add('T-STRUCT')
    order, w, signed = STRUCT_FMT[recv.fmt]
    b = resolve(ip, args[0])
    if not is_bytes(b):
        raise PyRaise(VExc('TypeError'), node)
    t = KBytes.unwrap(b)
    ip.raise_if(z3.Length(t) != w, 'struct.error', node)
    return struct_unpack(ip, recv, t, node)


@method('Struct', 'unpack_from')
def _st_unpack_from(ip, recv, args, kwargs, node, fr):
    ip.assumed.add('T-STRUCT')
    order, w, signed = STRUCT_FMT[recv.fmt]
    b = resolve(ip, args[0])
    off = resolve(ip, args[1]) if len(args) > 1 else VConst(0)
    if not is_bytes(b):
        raise PyRaise(VExc('TypeError'), node)
    t = KBytes.unwrap(b)
    o = int_term(off)
    ip.raise_if(z3.Or(o < 0, o + w > z3.Length(t)), 'struct.error', node)
    return struct_unpack(ip, recv, z3.SubSeq(t, o, w), node)


@method('int', 'from_bytes')
def _int_from_bytes(ip, recv, args, kwargs, node, fr):
    b = resolve(ip, args[0])
    order = resolve(ip, args[1] if len(args) > 1 else kwargs.get('byteorder', VConst('big')))
    if not is_bytes(b) or not isinstance(order, VConst):
        raise EngineError('int.from_bytes with these arguments')
    enc, dec = struct_funcs('le' if order.py == 'little' else 'be', False)
    r = dec(KBytes.unwrap(b))
    ip.assume(r >= 0)
    return VInt(r)


def bisect_impl(ip, args, node, right):
    '''bisect.bisect_left / bisect_right on a sorted integer list: the partition point.'''
    a = resolve(ip, args[0])
    x = resolve(ip, args[1])
    if not isinstance(a, VList) or (a.ek is not None and a.ek != KInt) or not is_intlike(x):
        raise EngineError('bisect on this argument')
    if a.ek is None:
        return VConst(0)
    xt = int_term(x)
    r = z3.Int(ip.fresh_name('bis'))
    j = z3.Int(ip.fresh_name('j'))
    ip.assume(z3.And(0 <= r, r <= a.n))
    if right:
        ip.assume(z3.ForAll([j], z3.Implies(z3.And(0 <= j, j < r), z3.Select(a.arr, j) <= xt), patterns=[z3.Select(a.arr, j)]))
        ip.assume(z3.ForAll([j], z3.Implies(z3.And(r <= j, j < a.n), z3.Select(a.arr, j) > xt), patterns=[z3.Select(a.arr, j)]))
    else:
        ip.assume(z3.ForAll([j], z3.Implies(z3.And(0 <= j, j < r), z3.Select(a.arr, j) < xt), patterns=[z3.Select(a.arr, j)]))
        ip.assume(z3.ForAll([j], z3.Implies(z3.And(r <= j, j < a.n), z3.Select(a.arr, j) >= xt), patterns=[z3.Select(a.arr, j)]))
    ip.assumed.add('T-BISECT: bisect on a sorted list returns the partition point (the list is sorted: caller invariant)')
    return VInt(r)


@builtin('bisect_right')
def _bisect_right(ip, args, kwargs, node, fr):
    return bisect_impl(ip, args, node, True)


@builtin('bisect_left')
def _bisect_left(ip, args, kwargs, node, fr):
    return bisect_impl(ip, args, node, False)


@builtin('namedtuple')
def _namedtuple(ip, args, kwargs, node, fr):
    tn, fs = resolve(ip, args[0]), resolve(ip, args[1])
    if not (isinstance(tn, VConst) and isinstance(fs, VConst)):
        raise EngineError('namedtuple with computed names')
    c = VClass('nt:' + tn.py, 'ntfunc')
    c.fields = fs.py.replace(',', ' ').split() if isinstance(fs.py, str) else list(fs.py)
    return c
