'''Command line: ./verif check <id> [--tier quick|thorough] | all | replay <file> | list

Exit codes: 0 held, 1 violation (VIOLATION line printed), 2 undecided, 3 engine/contract error.
'''
import argparse
import hashlib
import json
import multiprocessing as mp
import os
import re
import subprocess
import sys
import time
import traceback

VERIF_DIR = os.path.dirname(os.path.dirname(os.path.abspath(__file__)))
OUT_DIR = os.path.join(VERIF_DIR, 'out')
EVID_DIR = os.path.join(VERIF_DIR, 'evidence')
VENV_PY = '/venv/bin/python'


def units_for(reg, pid, tier='thorough'):
    fns = [k for k, c in reg.contracts.items() if pid in c.props and not c.trusted
           and (tier == 'thorough' or getattr(c, 'tier', 'quick') == 'quick')]
    lemmas = [n for n, a in reg.axioms.items() if a.kind == 'lemma' and pid in a.props]
    return sorted(fns), sorted(lemmas)


_SEED_FEAS = {}      # function -> feasibility verdicts computed while enumerating its shards (inherited by fork)


def _run_unit(arg):
    kind, name, seed, timeout_ms = arg[:4]
    prefix = arg[4] if len(arg) > 4 else None
    from .verifier import Verifier
    from .engine import EngineError
    t0 = time.time()
    try:
        V = Verifier(seed=seed, timeout_ms=timeout_ms)
        if kind == 'fn':
            if prefix is not None and name in _SEED_FEAS:
                V.feas_cache = dict(_SEED_FEAS[name])
            res, info = V.verify_function(name, prefix=prefix)
            info = dict(info)
            info['assumed'] = sorted(info['assumed'])
            info['inlined'] = sorted(V.inlined)
            info['used_contracts'] = sorted(V.used_contracts)
            info['used_axioms'] = sorted(V.used_axioms)
            info['dropped'] = sorted(V.dropped)
            info['feas_seconds'] = round(V.feas_seconds, 3)
        else:
            res = V.verify_lemma(name)
            info = {'key': 'lemma:' + name, 'paths': 1, 'assumed': [], 'used_axioms': sorted(V.used_axioms),
                    'reached': True}
        out = []
        for r in res:
            d = r.as_dict()
            d['kf'] = getattr(r, 'kf', None)
            d['dkey'] = getattr(r, 'dkey', None)
            out.append(d)
        info['seconds'] = round(time.time() - t0, 3)
        return {'unit': name, 'kind': kind, 'ok': True, 'results': out, 'info': info}
    except EngineError as e:
        return {'unit': name, 'kind': kind, 'ok': False, 'error': f'EngineError: {e}', 'results': [],
                'info': {'key': name, 'seconds': round(time.time() - t0, 3)}}
    except Exception as e:    # noqa
        return {'unit': name, 'kind': kind, 'ok': False,
                'error': f'{type(e).__name__}: {e}\n{traceback.format_exc()}', 'results': [],
                'info': {'key': name, 'seconds': round(time.time() - t0, 3)}}


def _pool_worker(tasks, results):
    while True:
        item = tasks.get()
        if item is None:
            return
        i, w = item
        results.put(('start', i, os.getpid(), time.time()))
        results.put(('done', i, _run_unit(w)))


def run_pool(work, jobs, unit_timeout):
    '''Run the units on `jobs` worker processes.  A unit that does not come back within unit_timeout seconds (a solver call
    that ignores its own budget - z3's push() and some quantifier loops do) is killed: it becomes an engine error of that
    unit ("did not return"), never a verdict, and the other units are unaffected.'''
    ctx = mp.get_context('fork')
    n = max(1, min(jobs, len(work)))
    tasks, results = ctx.Queue(), ctx.Queue()
    for item in enumerate(work):
        tasks.put(item)
    procs = {}

    def spawn():
        p = ctx.Process(target=_pool_worker, args=(tasks, results), daemon=True)
        p.start()
        procs[p.pid] = p
    for _ in range(n):
        spawn()
    outs = [None] * len(work)
    running = {}        # task index -> (pid, start)
    done = 0
    while done < len(work):
        try:
            msg = results.get(timeout=2)
        except Exception:      # noqa  (queue.Empty)
            msg = None
        if msg is not None:
            if msg[0] == 'start':
                running[msg[1]] = (msg[2], msg[3])
            else:
                _, i, out = msg
                if outs[i] is None:
                    outs[i] = out
                    done += 1
                running.pop(i, None)
        now = time.time()
        for i, (pid, t0) in list(running.items()):
            if now - t0 > unit_timeout and outs[i] is None:
                p = procs.pop(pid, None)
                if p is not None:
                    p.kill()
                    p.join(5)
                w = work[i]
                outs[i] = {'unit': w[1], 'kind': w[0], 'ok': False, 'results': [],
                           'error': f'EngineError: the unit did not return within {unit_timeout} s (a solver call ignored its budget); killed',
                           'info': {'key': w[1], 'seconds': round(now - t0, 1)}}
                done += 1
                running.pop(i, None)
                spawn()
        # a worker that died on its own (out of memory, ...) loses its task: report it the same way
        for pid, p in list(procs.items()):
            if not p.is_alive() and p.exitcode not in (0, None):
                procs.pop(pid)
                for i, (rpid, t0) in list(running.items()):
                    if rpid == pid and outs[i] is None:
                        w = work[i]
                        outs[i] = {'unit': w[1], 'kind': w[0], 'ok': False, 'results': [],
                                   'error': f'EngineError: the worker process of this unit died (exit code {p.exitcode})',
                                   'info': {'key': w[1], 'seconds': round(now - t0, 1)}}
                        done += 1
                        running.pop(i, None)
                spawn()
    for _ in procs:
        tasks.put(None)
    for p in procs.values():
        p.join(2)
        if p.is_alive():
            p.kill()
    return outs


def merge_shards(outs):
    '''Shards of one function (parallel exploration below different decision prefixes) are folded into one unit; an
    obligation generated above the prefix is generated by every shard and counted once.'''
    merged, order = {}, []
    for o in outs:
        k = (o['kind'], o['unit'])
        if k not in merged:
            merged[k] = o
            o['_seen'] = {r.get('dkey') for r in o['results']}
            order.append(k)
            continue
        m = merged[k]
        if not o['ok']:
            if m['ok']:
                m['ok'], m['error'] = False, o.get('error')
            continue
        for r in o['results']:
            if r.get('dkey') in m['_seen']:
                continue
            m['_seen'].add(r.get('dkey'))
            m['results'].append(r)
        mi, oi = m.get('info', {}), o.get('info', {})
        if m['ok']:
            mi['paths'] = mi.get('paths', 0) + oi.get('paths', 0)
            mi['seconds'] = round(mi.get('seconds', 0) + oi.get('seconds', 0), 3)
            for fld in ('assumed', 'inlined', 'used_contracts', 'used_axioms', 'dropped'):
                mi[fld] = sorted(set(mi.get(fld, [])) | set(oi.get(fld, [])))
            ex, ox = mi.get('exits'), oi.get('exits')
            if ex and ox:
                ex['return'] += ox['return']
                ex['cut'] += ox['cut']
                for t, n in ox['raise'].items():
                    ex['raise'][t] = ex['raise'].get(t, 0) + n
            mi['reached'] = mi.get('reached') or oi.get('reached')
    for k in order:
        merged[k].pop('_seen', None)
    return [merged[k] for k in order]


def load_baseline(pid):
    p = os.path.join(VERIF_DIR, 'baseline', f'{pid}.json')
    if not os.path.exists(p):
        return set()
    return set(json.load(open(p))['proved'])


def write_baseline(pid, results):
    os.makedirs(os.path.join(VERIF_DIR, 'baseline'), exist_ok=True)
    names = sorted({r['name'] for r in results if r['status'] == 'proved' and not r.get('kf')} | load_baseline(pid))
    with open(os.path.join(VERIF_DIR, 'baseline', f'{pid}.json'), 'w') as f:
        json.dump({'property': pid, 'proved': names}, f, indent=0)


def load_known():
    p = os.path.join(VERIF_DIR, 'known_findings.json')
    if not os.path.exists(p):
        return []
    return json.load(open(p))


def safe(name):
    return re.sub(r'[^A-Za-z0-9_.-]+', '_', name)[:120]


def run_check(pid, tier, seed, jobs, only=None, verbose=False, record_baseline=False):
    from .verifier import load_registry
    from . import replay as replay_mod
    t0 = time.time()
    reg = load_registry()
    fns, lemmas = units_for(reg, pid, tier if not only else 'thorough')
    if only:
        fns = [f for f in fns if only in f]
        lemmas = [l for l in lemmas if only in l]
    timeout_ms = 20000 if tier == 'quick' else 60000
    work = []
    sharded = {}
    for f in fns:
        depth = getattr(reg.contracts[f], 'shard_depth', None)
        if depth and jobs > 1:
            from .verifier import Verifier
            try:
                pv = Verifier(reg=reg, seed=seed, timeout_ms=timeout_ms)
                prefixes = pv.probe_prefixes(f, depth)
                _SEED_FEAS[f] = pv.probe_cache
            except Exception as e:   # noqa
                prefixes = [()]
            sharded[f] = len(prefixes)
            work += [('fn', f, seed, timeout_ms, list(p)) for p in prefixes]
        else:
            work.append(('fn', f, seed, timeout_ms))
    work += [('lemma', l, seed, timeout_ms) for l in lemmas]
    if not work:
        print(f'no units registered for {pid}')
        return 3
    outs = run_pool(work, jobs, 900 if tier == 'quick' else 2700)
    if sharded:
        outs = merge_shards(outs)

    # bounded stand-ins (never counted as proved): native drivers with a stated bound
    from . import manifest_data as MD
    bounded_results = []
    for b in MD.PROPS.get(pid, {}).get('bounded', []):
        if only:
            continue
        req = {'property': pid, 'obligation': b['obligation'], 'bounded': True, 'tier': tier, 'seed': seed,
               'known': sorted(k['id'] for k in load_known() if k.get('status') == 'known')}
        req.update(b.get('request', {}))
        if tier == 'thorough' and 'rounds' in req:
            req['rounds'] = req['rounds'] * 6
        try:
            res = replay_mod.run_driver(b['driver'], req, timeout=3000)
        except Exception as e:   # noqa
            res = {'reproduced': False, 'error': f'driver failed: {e}'}
        res['driver'] = b['driver']
        bounded_results.append((b, res))
    known = [k for k in load_known() if k.get('property') == pid]
    known_ids = {k['id'] for k in known if k.get('status') == 'known'}
    errors, results = [], []
    for o in outs:
        if not o['ok']:
            errors.append(o)
        for r in o['results']:
            if pid in r['props'] or not r['props']:
                r['unit'] = o['unit']
                results.append(r)
    n_obl = len(results)
    proved = [r for r in results if r['status'] == 'proved']
    failed = [r for r in results if r['status'] == 'failed']
    unknown = [r for r in results if r['status'] == 'unknown']
    violations, known_hits, stale_kf = [], [], []
    os.makedirs(os.path.join(OUT_DIR, 'replay'), exist_ok=True)
    baseline = load_baseline(pid)
    for r in failed:
        if r.get('kf') and r['kf'] in known_ids:
            known_hits.append(r)
            continue
        violations.append(r)
    # An obligation the solvers leave open is *undecided*, not violated - unless (a) the native
    # counterexample search of its replay driver finds a failing input on the real code, or
    # (b) it is recorded in the committed baseline as proved on the unchanged tree (then it is
    # reported with the solver's reason and the words no-failing-input-found).
    still_unknown = []
    searched = {}
    # second look: a baseline obligation that comes back `unknown` (a solver budget hit on a loaded machine looks exactly
    # like this) is re-run once, alone, with three times the budget and another random seed before anything is concluded
    retry_units = sorted({r.get('unit') for r in unknown if r['name'] in baseline and r.get('unit') and not r.get('kf')})
    second = {}
    for u in retry_units[:6]:
        kind = 'lemma' if u.startswith('lemma:') else 'fn'
        o2 = _run_unit((kind, u[6:] if kind == 'lemma' else u, seed + 7, timeout_ms * 3))
        if o2.get('ok'):
            by = {}
            for r2 in o2['results']:
                by.setdefault(r2['name'], []).append(r2['status'])
            second[u] = by
    kept = []
    for r in unknown:
        sts = second.get(r.get('unit'), {}).get(r['name'])
        if r['name'] in baseline and sts and all(x == 'proved' for x in sts):
            r['status'] = 'proved'
            r['detail'] = 'undecided within the normal budget, proved on the second attempt with 3x the budget'
            r['backend'] = (r.get('backend') or '') + '+retry'
            proved.append(r)
        else:
            kept.append(r)
    unknown = kept
    for r in unknown:
        if r.get('kf') and r['kf'] in known_ids:
            known_hits.append(r)      # the same obligation restricted to outside the known class is separate
            continue
        if r['name'] not in searched:
            rec = {}
            searched[r['name']] = replay_mod.try_replay(pid, r, rec)
        rp = searched[r['name']]
        if rp.get('reproduced'):
            r['native'] = rp
            violations.append(r)
        elif r['name'] in baseline:
            r['detail'] = f"proved on the unchanged tree (baseline), now undischarged: {r['detail']}"
            violations.append(r)
        else:
            still_unknown.append(r)
    unknown = still_unknown
    hit_kfs = {r['kf'] for r in known_hits}
    for r in proved:
        if r.get('kf') and r['kf'] not in hit_kfs:
            stale_kf.append(r)
    # vacuity: every unit must have produced obligations and been reachable
    for o in outs:
        if o['ok'] and not o['results']:
            errors.append({'unit': o['unit'], 'error': 'zero obligations generated (vacuous)'})
        if o['ok'] and o['info'].get('reached') is False:
            # unsat preconditions are an engine error (raised in the verifier); `unknown` is recorded
            o['info']['reach_note'] = 'satisfiability of the precondition not decided by the solver (quantified)'


    lines = []
    seen_kf = set()
    for r in known_hits:
        if r['kf'] in seen_kf:
            continue
        seen_kf.add(r['kf'])
        k = next(k for k in known if k['id'] == r['kf'])
        lines.append(f"KNOWN-FINDING: property={pid} {k['id']} {r['name']}: {k['what_fails']}")
    exit_code = 0
    replayed = 0
    vio_records = []
    seen_v = set()
    by_name = {}
    for r in violations:
        by_name.setdefault(r['name'], []).append(r)
    for r in violations:
        if r['name'] in seen_v:
            continue
        seen_v.add(r['name'])
        # several paths may fail the same obligation: replay their counter-models in turn until one
        # reproduces on the real code
        if not (r.get('native') or searched.get(r['name'])):
            for cand in by_name[r['name']][:6]:
                rp_ = replay_mod.try_replay(pid, cand, {})
                if rp_.get('reproduced'):
                    cand['native'] = rp_
                    r = cand
                    break
            else:
                r['native'] = rp_
        path = os.path.join(OUT_DIR, 'replay', f'{pid}-{safe(r["name"])}.json')
        rec = {'property': pid, 'obligation': r['name'], 'unit': r['unit'], 'where': r['where'],
               'path': r.get('path'), 'backend': r['backend'], 'solver_output': r['detail'],
               'counter_model_inputs': r.get('inputs'), 'replay': None}
        rp = r.get('native') or searched.get(r['name']) or replay_mod.try_replay(pid, r, rec)
        if rp.get('class') in known_ids:
            # the concrete failing input found lies in a listed known-finding class
            k = next(k for k in known if k['id'] == rp['class'])
            lines.append(f"KNOWN-FINDING: property={pid} {k['id']} {r['name']}: {k['what_fails']}")
            continue
        rec['replay'] = rp
        with open(path, 'w') as f:
            json.dump(rec, f, indent=1, default=str)
        suffix = '' if (rp and rp.get('reproduced')) else ' no-failing-input-found'
        if rp and rp.get('reproduced'):
            replayed += 1
        lines.append(f'VIOLATION property={pid} replay={path}{suffix}')
        vio_records.append(rec)
        exit_code = 1
    kf_bounded = []
    for b, res in bounded_results:
        kf_id = b.get('expect_kf') or res.get('class') or (res.get('known') or {}).get('class')
        if kf_id and kf_id in known_ids and (res.get('reproduced') or res.get('known')):
            k = next(k for k in known if k['id'] == kf_id)
            if not any(kf_id in l for l in lines):
                lines.append(f"KNOWN-FINDING: property={pid} {kf_id} {b['obligation']}: {k['what_fails']}")
            if res.get('reproduced') and (b.get('expect_kf') or res.get('class')) == kf_id:
                kf_bounded.append(id(res))
                continue
        if res.get('reproduced'):
            path = os.path.join(OUT_DIR, 'replay', f'{pid}-{safe(b["obligation"])}.json')
            with open(path, 'w') as f:
                json.dump({'property': pid, 'obligation': b['obligation'], 'bounded_stand_in': b,
                           'replay': res}, f, indent=1, default=str)
            lines.append(f'VIOLATION property={pid} replay={path}')
            exit_code = 1
        elif res.get('error') or res.get('detail') == 'driver gave no verdict':
            errors.append({'unit': 'bounded:' + b['obligation'], 'error': str(res)[:300]})
    # a unit the engine could not process (unsupported construct, contract that no longer attaches) is
    # never a verdict by itself; but if the native counterexample search of its replay driver finds a
    # failing input on the real code, that is a violation with a real witness
    for e in list(errors):
        unit = e.get('unit') or ''
        if ':' not in unit or unit.startswith('bounded:'):
            continue
        from .engine import short_key
        oname = short_key(unit) + '.engine-error'
        fake = {'name': oname, 'unit': unit, 'inputs': None, 'where': None}
        rp = replay_mod.try_replay(pid, fake, {})
        if rp.get('reproduced') and rp.get('class') not in known_ids:
            path = os.path.join(OUT_DIR, 'replay', f'{pid}-{safe(oname)}.json')
            with open(path, 'w') as f:
                json.dump({'property': pid, 'obligation': oname, 'unit': unit,
                           'solver_output': 'no verdict from the prover: ' + e['error'].splitlines()[0],
                           'replay': rp}, f, indent=1, default=str)
            lines.append(f'VIOLATION property={pid} replay={path}')
            exit_code = 1
    if exit_code == 0 and unknown:
        exit_code = 2
    if errors:
        exit_code = 3 if exit_code != 1 else 1

    wall = time.time() - t0
    evidence = build_evidence(pid, tier, seed, reg, outs, results, proved, failed, unknown, known_hits,
                              violations, errors, wall, stale_kf)
    evidence['coverage']['bounded_stand_ins'] = [
        {'clause': b['what'], 'bound': b['bound'], 'driver': b['driver'], 'labelled': 'bounded (not counted as proved)',
         'result': {k: v for k, v in res.items() if k in ('reproduced', 'detail', 'cases', 'input')}}
        for b, res in bounded_results]
    # a listed known finding reproduced by its probe is reported as KNOWN-FINDING, not counted as a violation
    evidence['violations'] += sum(1 for b, res in bounded_results if res.get('reproduced') and id(res) not in kf_bounded)
    evidence['coverage']['known_findings_reproduced'] = [l.split(' ', 3)[2] for l in lines if l.startswith('KNOWN-FINDING:')]
    # the evidence file describes a full check of /repo; a partial run (--only) or a run on a scratch tree (VERIF_REPO)
    # is written under out/ and never replaces it
    partial = bool(only) or os.path.realpath(os.environ.get('VERIF_REPO', '/repo')) != os.path.realpath('/repo')
    evid_dir = os.path.join(OUT_DIR, 'evidence-partial') if partial else EVID_DIR
    os.makedirs(evid_dir, exist_ok=True)
    with open(os.path.join(evid_dir, f'{pid}.json'), 'w') as f:
        json.dump(evidence, f, indent=1, default=str)

    if record_baseline:
        if exit_code == 0:
            write_baseline(pid, results)
            print(f'baseline written for {pid}')
        else:
            print('baseline NOT written (check did not pass)')
    for l in lines:
        print(l)
    for e in errors:
        print(f"ENGINE-ERROR unit={e['unit']}: {e['error'].splitlines()[0]}")
        if verbose:
            print(e['error'])
    for r in unknown:
        print(f"UNDECIDED {r['name']} ({r['detail']})")
    for r in stale_kf:
        print(f"NOTE known finding {r['kf']} no longer reproduces: {r['name']} proved")
    if verbose:
        for r in results:
            print(f"  {r['status']:8s} {r['seconds']:7.3f}s {r['backend']:10s} {r['name']}   [{r.get('path','')}]")
            if r['status'] == 'failed' and r.get('inputs'):
                print('           inputs:', json.dumps(r['inputs'], default=str)[:1500])
    print(f'{pid} [{tier}] units={len(work)} obligations={n_obl} proved={len(proved)} '
          f'failed={len(failed)} (known={len(known_hits)}) unknown={len(unknown)} errors={len(errors)} '
          f'wall={wall:.1f}s exit={exit_code}')
    return exit_code


def build_evidence(pid, tier, seed, reg, outs, results, proved, failed, unknown, known_hits, violations,
                   errors, wall, stale_kf):
    from . import manifest_data
    meta = manifest_data.PROPS.get(pid, {})
    trusted = set()
    fns = []
    for o in outs:
        info = o.get('info', {})
        trusted |= set(info.get('assumed', []))
        for ck in info.get('used_contracts', []):
            c = reg.contracts.get(ck) or reg.builtin_contracts.get(ck.replace('builtin:', ''))
            if c is not None and c.trusted:
                trusted.add(c.trusted)
        if o['kind'] == 'fn':
            fns.append({'function': o['unit'], 'source_sha256_16': info.get('source_hash'),
                        'paths': info.get('paths'), 'exits': info.get('exits'),
                        'obligations': len(o['results']), 'seconds': info.get('seconds'),
                        'inlined_callees': info.get('inlined'), 'callee_contracts_used': info.get('used_contracts'),
                        'axiom_instances_used': info.get('used_axioms'), 'dropped': info.get('dropped'),
                        'precondition_reachable': 'sat' if info.get('reached') else 'unknown'})
        else:
            fns.append({'lemma': o['unit'], 'obligations': len(o['results']), 'seconds': info.get('seconds')})
    backends = {}
    for r in results:
        b = backends.setdefault(r['backend'], {'count': 0, 'seconds': 0.0})
        b['count'] += 1
        b['seconds'] = round(b['seconds'] + r['seconds'], 3)
    samples = [{'obligation': r['name'], 'status': r['status'], 'backend': r['backend'],
                'seconds': r['seconds'], 'where': r['where'], 'path': r.get('path')}
               for r in (failed[:5] + proved[:12])]
    level = meta.get('level', 'proof')
    # an obligation carried by a listed known finding is generated twice: restricted to outside the
    # known failing class (counted here, must be discharged) and unrestricted (reported separately
    # below, expected to fail, never counted as discharged)
    kf_marked = [r for r in results if r.get('kf')]
    n_obl = len(results) - len(kf_marked)
    cov = {
        'obligations': n_obl,
        'discharged': len([r for r in proved if not r.get('kf')]),
        'known_finding_obligations': {'generated': len(kf_marked),
                                      'failing_or_open': len([r for r in kf_marked if r['status'] != 'proved'])},
        'failed': len(failed),
        'failed_known_findings': len(known_hits),
        'undecided': len(unknown),
        'checker_cmd': f'./verif check {pid} --tier {tier}',
        'trusted_base': sorted(trusted | set(meta.get('trusted', []))),
        'functions_under_contract': fns,
        'back_ends': backends,
        'solver_seconds': round(sum(r['seconds'] for r in results), 3),
        'samples': samples,
        'explanation': meta.get('explanation', ''),
        'not_decided': meta.get('not_decided', []),
        'bounded_stand_ins': meta.get('bounded', []),
        'engine_errors': [e['unit'] + ': ' + e['error'].splitlines()[0] for e in errors],
        'known_findings_hit': sorted({r['kf'] for r in known_hits}),
        'exhaustive': False,
    }
    if known_hits and level == 'proof':
        cov['explanation'] += (' NOTE: %d obligation instance(s) fail and are listed known findings; '
                               'discharged < obligations by exactly those.' % len(known_hits))
    return {
        'property_id': pid, 'tier': tier, 'seed': seed, 'level': level, 'coverage': cov,
        'assumptions': sorted(trusted | set(meta.get('assumptions', []))),
        'wall_s': round(wall, 2), 'violations': len({r['name'] for r in violations}),
    }


def main(argv=None):
    ap = argparse.ArgumentParser(prog='verif')
    sub = ap.add_subparsers(dest='cmd', required=True)
    c = sub.add_parser('check')
    c.add_argument('pid')
    c.add_argument('--tier', default=os.environ.get('VERIF_TIER', 'quick'))
    c.add_argument('--jobs', type=int, default=int(os.environ.get('VERIF_JOBS', '16')))
    c.add_argument('--only', default=None)
    c.add_argument('-v', '--verbose', action='store_true')
    c.add_argument('--record-baseline', action='store_true',
                   help='after a passing run on the unchanged tree: record the names of the proved obligations')
    r = sub.add_parser('replay')
    r.add_argument('path')
    sub.add_parser('list')
    a = sub.add_parser('all')
    a.add_argument('--tier', default='quick')
    args = ap.parse_args(argv)
    seed = int(os.environ.get('VERIF_SEED', '0'))
    if args.cmd == 'check':
        return run_check(args.pid, args.tier, seed, args.jobs, args.only, args.verbose, args.record_baseline)
    if args.cmd == 'list':
        from .verifier import load_registry
        reg = load_registry()
        for k, c in sorted(reg.contracts.items()):
            print(('T ' if c.trusted else '  ') + k, c.props)
        for n, a in sorted(reg.axioms.items()):
            print(f'  [{a.kind}] {n}', a.props)
        return 0
    if args.cmd == 'all':
        from . import manifest_data
        rc = 0
        for pid in sorted(manifest_data.PROPS):
            if manifest_data.PROPS[pid].get('claimed', True):
                rc = max(rc, run_check(pid, args.tier, seed, 16))
        return rc
    if args.cmd == 'replay':
        from . import replay as replay_mod
        return replay_mod.replay_file(args.path)


if __name__ == '__main__':
    sys.exit(main())
