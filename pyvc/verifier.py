'''Driver: path enumeration per function, obligation discharge (z3, then cvc5 on unknown),
lemma proofs, vacuity guards, model extraction.'''
import ast
import glob
import importlib.util
import os
import subprocess
import tempfile
import time

import z3

from . import extract
from .dsl import Registry, parse_expr
from .engine import (Interp, Frame, PathEnd, PyRaise, ReturnEx, EngineError, Obligation, short_key, VJ)
from .values import *   # noqa

VERIF_DIR = os.path.dirname(os.path.dirname(os.path.abspath(__file__)))


def load_registry(contract_dir=None):
    reg = Registry()
    contract_dir = contract_dir or os.path.join(VERIF_DIR, 'contracts')
    for path in sorted(glob.glob(os.path.join(contract_dir, '*.py'))):
        name = os.path.basename(path)[:-3]
        if name.startswith('_'):
            continue
        spec = importlib.util.spec_from_file_location('contracts_' + name, path)
        m = importlib.util.module_from_spec(spec)
        spec.loader.exec_module(m)
        if hasattr(m, 'register'):
            m.register(reg)
    return reg


class Verifier:
    def __init__(self, reg=None, repo=None, timeout_ms=20000, feas_timeout_ms=800, seed=0, max_paths=4000):
        self.reg = reg or load_registry()
        self.repo = repo or extract.Repo()
        self.timeout_ms = timeout_ms
        self.feas_timeout_ms = feas_timeout_ms
        self.seed = seed
        self.max_paths = max_paths
        self.probe_depth = None
        self.feas_no_mbqi = True      # feasibility pruning only needs cheap refutations (E-matching); sat/unknown = keep the path
        self.pow2 = z3.Function('pow2', z3.IntSort(), z3.IntSort())
        self.sumf = z3.Function('sum_int', z3.ArraySort(z3.IntSort(), z3.IntSort()), z3.IntSort(), z3.IntSort())
        self.bjoin = z3.Function('bjoin', z3.ArraySort(z3.IntSort(), z3.SeqSort(z3.BitVecSort(8))),
                                 z3.IntSort(), z3.SeqSort(z3.BitVecSort(8)))
        self.reset()

    def reset(self):
        self.feas_cache = {}
        self.done = set()
        self.feas_seconds = 0.0
        self.dropped = set()
        self.inlined = set()
        self.used_contracts = set()
        self.used_axioms = set()
        self.ghost_hits = set()
        self.assumed = set()
        self._fnode_cache = {}
        self._reach = {}
        self.pending = []

    def asserts_as_obligations(self, fr):
        c = fr.contract
        return bool(c is not None and getattr(c, 'prove_asserts', False))

    def fnode_of(self, fr):
        f = fr
        while f.contract is None and f.parent is not None:
            f = f.parent
        key = f.fkey
        if key in self._fnode_cache:
            return self._fnode_cache[key]
        if '.<locals>.' in key.split(':')[1]:
            mod = self.repo.module(key.split(':')[0])
            node = mod.functions[key.split(':')[1]]
        else:
            mod, node = self.repo.function(key)
        self._fnode_cache[key] = (mod, node)
        return mod, node

    # ------------------------------------------------------------------------------------
    def discharge(self, name, pc, goal, props, where, timeout_ms=None):
        t0 = time.time()
        s = z3.Solver()
        s.set('timeout', timeout_ms or self.timeout_ms)
        s.set('random_seed', self.seed)
        for p in pc:
            s.add(p)
        s.add(z3.Not(goal))
        dump = os.environ.get('VERIF_DUMP')
        if dump and dump in name:
            os.makedirs(os.path.join(VERIF_DIR, 'out', 'dump'), exist_ok=True)
            self._dumpn = getattr(self, '_dumpn', 0) + 1
            with open(os.path.join(VERIF_DIR, 'out', 'dump', f'{self._dumpn:03d}-' + name.replace('/', '_')[:80] + '.smt2'), 'w') as f:
                f.write(s.to_smt2())
        size = len(pc)
        proc = None
        if getattr(self, 'portfolio', False) and timeout_ms is None:
            # byte-sequence VCs: cvc5 decides many that z3's sequence solver leaves open - run it alongside
            smt2_ = s.to_smt2()
            if 'lambda' not in smt2_ and '(intersection ' not in smt2_ and '(union ' not in smt2_:
                proc = start_cvc5(smt2_, max(10, self.timeout_ms // 1000) * 8)
            # z3 gets a short, fixed window on portfolio units in every tier: with byte-slice terms under quantifiers a longer
            # window has been seen not to return at all (L19), and cvc5 - an external process that can be killed - decides these
            s.set('timeout', min(self.timeout_ms, 2500))
        r = s.check()
        dt = time.time() - t0
        if proc is not None:
            if r in (z3.unsat, z3.sat):
                kill_cvc5(proc)
            else:
                # cvc5 keeps running while the executor goes on; collected at the end of the unit
                ob = Obligation(name, 'pending', props, dt, 'cvc5', where=where, size=size,
                                detail=f'z3: {s.reason_unknown()}')
                ob._proc, ob._t0 = proc, t0
                self.pending.append(ob)
                return ob
        if r == z3.unsat:
            return Obligation(name, 'proved', props, dt, 'z3', where=where, size=size)
        if r == z3.sat:
            m = s.model()
            return Obligation(name, 'failed', props, dt, 'z3', where=where, size=size,
                              model=m, detail='counter-model found')
        # unknown: second opinion
        reason = s.reason_unknown()
        smt2 = s.to_smt2()
        if timeout_ms is not None or 'lambda' in smt2 or '(intersection ' in smt2 or '(union ' in smt2 \
                or '(setminus ' in smt2 or '(subset ' in smt2:
            r2, out = 'unknown', 'not run (z3-only syntax in the VC)'
        else:
            r2, out = run_cvc5(smt2, max(10, self.timeout_ms // 1000))
        dt = time.time() - t0
        if r2 == 'unsat':
            return Obligation(name, 'proved', props, dt, 'cvc5', where=where, size=size)
        if r2 == 'sat':
            return Obligation(name, 'failed', props, dt, 'cvc5', where=where, size=size,
                              detail='cvc5: sat (no model extracted)')
        return Obligation(name, 'unknown', props, dt, 'z3+cvc5', where=where, size=size,
                          detail=f'z3: {reason}; cvc5: {out[:200]}')

    # ------------------------------------------------------------------------------------
    def probe_prefixes(self, key, depth):
        '''All decision prefixes of length <= depth of the function's path tree (complete paths shorter than depth
        included): the shards of a parallel exploration.  No obligation is discharged while probing.'''
        c = self.reg.contracts[key]
        if getattr(c, 'feas_timeout_ms', None):
            self.feas_timeout_ms = c.feas_timeout_ms
        self.probe_depth = depth
        out, decisions = [], []
        try:
            while True:
                ip = Interp(self, decisions)
                try:
                    self.run_function(ip, key, c)
                except PathEnd:
                    pass
                out.append(tuple(ip.decisions[:ip.pos]))
                dec, ar = ip.decisions[:ip.pos], ip.arity[:ip.pos]
                while dec and dec[-1] + 1 >= (ar[len(dec) - 1] or 1):
                    dec.pop()
                if not dec:
                    break
                dec[-1] += 1
                decisions = dec
                if len(out) > 4096:
                    raise EngineError(f'{key}: more than 4096 shards')
        finally:
            self.probe_depth = None
            cache = dict(self.feas_cache)
            self.reset()
        self.probe_cache = cache      # feasibility verdicts of the prefixes: handed to the shards
        return out

    def verify_function(self, key, prefix=None):
        '''Explore every path of the function (below the decision prefix, if one is given); returns (obligations, info).'''
        c = self.reg.contracts[key]
        self.portfolio = bool(getattr(c, 'portfolio', False))
        if getattr(c, 'feas_timeout_ms', None):
            self.feas_timeout_ms = c.feas_timeout_ms
        results = []
        prefix = list(prefix or [])
        decisions = list(prefix)
        npaths = 0
        exits = {'return': 0, 'raise': {}, 'cut': 0}
        info = {'key': key, 'paths': 0, 'exits': exits, 'assumed': set(), 'source_hash': self.repo.source_hash(key)
                if ('<locals>' not in key and not key.startswith('harness:')) else ''}
        reached = False
        while True:
            ip = Interp(self, decisions)
            npaths += 1
            try:
                kind = self.run_function(ip, key, c)
                if kind[0] == 'return':
                    exits['return'] += 1
                else:
                    exits['raise'][kind[1]] = exits['raise'].get(kind[1], 0) + 1
            except PathEnd:
                exits['cut'] += 1
            results.extend(ip.results)
            info['assumed'] |= ip.assumed
            reached = reached or getattr(ip, 'reached', False)
            # next decision vector
            dec, ar = ip.decisions[:ip.pos], ip.arity[:ip.pos]
            while dec and dec[-1] + 1 >= (ar[len(dec) - 1] or 1):
                dec.pop()
            if not dec or len(dec) <= len(prefix) and prefix:
                break
            dec[-1] += 1
            decisions = dec
            if npaths > self.max_paths:
                raise EngineError(f'{key}: more than {self.max_paths} paths')
        for ob in self.pending:
            r2, out = finish_cvc5(ob._proc)
            ob.seconds = time.time() - ob._t0
            if r2 == 'unsat':
                ob.status = 'proved'
            elif r2 == 'sat':
                ob.status, ob.detail = 'failed', 'cvc5: sat (no model extracted)'
            else:
                ob.status, ob.backend, ob.detail = 'unknown', 'z3+cvc5', f'{ob.detail}; cvc5: {out[:200]}'
            del ob._proc
        self.pending = []
        info['paths'] = npaths
        info['reached'] = reached
        if not prefix and not os.environ.get('VERIF_NO_HOOKCHECK'):
            # contract drift: a ghost hook keyed by a statement that no longer occurs on any path would silently drop the
            # obligations it carries
            import fnmatch
            for hk in (c.ghost or {}):
                if isinstance(hk, tuple):
                    when, pat = hk
                    hit = any(k == c.key and w == when and (fp == pat or ('*' in pat and fnmatch.fnmatchcase(fp, pat)))
                              for (k, w, fp) in self.ghost_hits)
                    if not hit and not any(r.status in ('failed', 'unknown') for r in results):
                        raise EngineError(f'{key}: ghost hook {hk!r} attached to no statement on any path (the statement it names '
                                          f'no longer occurs: contract drift)')
        return results, info

    def run_harness(self, ip, key, c):
        import textwrap
        relpath, body, inline = c.harness
        mod = self.repo.module(relpath)
        ip.cur_props = c.props
        ip.cur_fn = key.replace(':', '.')
        saved_inline = set(self.reg.inline)
        self.reg.inline |= set(inline)
        hidden = {k: self.reg.contracts.pop(k) for k in inline if k in self.reg.contracts}
        try:
            env = {p: k.fresh(ip, p) for p, k in c.params.items()}
            fr = Frame(mod, key, env, contract=None)
            for lab, req in c.requires:
                ip.assume(ip.spec_bool(req, env))
            fr.old = ip.snapshot(env)
            ip.entry_env = fr.old
            ip.reached = True
            for st in ast.parse(textwrap.dedent(body)).body:
                if isinstance(st, ast.ImportFrom):
                    for a in st.names:
                        m2 = self.repo.module_by_dotted(st.module)
                        fr.env[a.asname or a.name] = ip.lookup_global(a.name, m2)
                    continue
                ip.exec_stmt(st, fr)
            senv = ip.spec_env(fr)
            for lab, ens in c.ensures:
                ip.prove(f'{ip.cur_fn}.{lab}', ip.spec_bool(ens, senv, fr.old))
            return ('return',)
        except PyRaise as e:
            ip.fail(f'{ip.cur_fn}.raises.{e.exc.typ}', f'{e.exc.typ} escapes the harness')
        finally:
            self.reg.inline = saved_inline
            self.reg.contracts.update(hidden)

    def run_function(self, ip, key, c):
        if getattr(c, 'harness', None):
            return self.run_harness(ip, key, c)
        mod, fnode = self.repo.function(key) if '<locals>' not in key else \
            (self.repo.module(key.split(':')[0]), self.repo.module(key.split(':')[0]).functions[key.split(':')[1]])
        ip.cur_props = c.props
        ip.cur_fn = short_key(key)
        label = ip.cur_fn
        env = {}
        a = fnode.args
        params = [p.arg for p in a.posonlyargs + a.args]
        defaults = dict(zip(params[len(params) - len(a.defaults):], a.defaults))
        for p, d in zip(a.kwonlyargs, a.kw_defaults):
            params.append(p.arg)
            if d is not None:
                defaults[p.arg] = d
        relpath, qual = key.split(':')
        for i, p in enumerate(params):
            if p in c.params:
                env[p] = c.params[p].fresh(ip, p)
            elif i == 0 and p == 'self' and '.' in qual:
                ckey = f'{relpath}:{qual.split(".")[0]}'
                env[p] = ip.new_object(ckey, 'self', assume_inv=c.assumes_inv)
            elif p in defaults:
                env[p] = ip.eval(defaults[p], Frame(mod, key))
            else:
                raise EngineError(f'{key}: parameter {p} has no kind in the contract')
        if a.vararg is not None:
            vk = c.params.get(a.vararg.arg)
            env[a.vararg.arg] = vk.fresh(ip, a.vararg.arg) if vk is not None else VTuple(())
        for p, k in c.ghost_params.items():
            env[p] = k.fresh(ip, p)
        for v in list(env.values()):
            if isinstance(v, VFunc) and getattr(v, 'bind_name', None):
                v.self_val = env[v.bind_name]
        parent = None
        if c.closure_env:
            parent = Frame(mod, key.rsplit('.<locals>.', 1)[0], {})
            for p, k in c.closure_env.items():
                parent.env[p] = k.fresh(ip, p)
        fr = Frame(mod, key, env, parent=parent, contract=c)
        for lab, req in c.requires:
            ip.assume(ip.spec_bool(req, ip.spec_env(fr)))
        fr.old = ip.snapshot(ip.spec_env(fr))
        ip.entry_env = fr.old
        # vacuity guard: the precondition (with the class invariant) must be satisfiable
        if key not in self._reach:
            ip.solver.set('timeout', min(self.timeout_ms, 5000))
            r = ip.solver.check()
            ip.solver.set('timeout', self.feas_timeout_ms)
            if r == z3.unsat:
                raise EngineError(f'{key}: precondition/invariant unsatisfiable (vacuous contract)')
            self._reach[key] = (r == z3.sat)
        ip.reached = self._reach[key]
        if c.ghost.get('entry'):
            ip.ghost_exec(c.ghost['entry'], fr)
        selfv = env.get('self')
        try:
            result = ip.run_body(fnode, fr)
        except PyRaise as e:
            typ = e.exc.typ
            where = ip.where(e.node, fr) if e.node is not None else None
            allowed = [A for A in c.raises if exc_is_subclass(typ, A)]
            if not allowed:
                ip.fail(f'{label}.raises.{typ}', f'{typ} escapes', where=where)
            senv = ip.spec_env(fr)
            senv['exc_args'] = VTuple(e.exc.args)
            # the escaping class is in the contract's closed set on this path (decided by the
            # executor: exception classes are concrete along a path)
            ip.prove(f'{label}.escape-allowed.{typ}', z3.BoolVal(True), where=where)
            for A in allowed:
                for i, cond in enumerate(c.raises[A]):
                    ip.prove(f'{label}.raises.{A}.{i}', ip.spec_bool(cond, senv, fr.old), where=where)
            if isinstance(selfv, VObj) and c.maintains_inv:
                spec = self.reg.classes.get(selfv.cls)
                for lab, inv in (spec.inv if spec else []):
                    ip.prove(f'{label}.inv-on-raise.{lab}', ip.spec_bool(inv, {'self': selfv}), where=where)
            return ('raise', typ)
        if c.noreturn:
            ip.fail(f'{label}.noreturn', 'function returned')
        if c.ghost.get('exit'):
            fr.env['result'] = result
            ip.ghost_exec(c.ghost['exit'], fr)
        senv = ip.spec_env(fr)
        if 'result' not in (c.params or {}):
            senv['result'] = result
        senv['ret'] = result
        if not c.ensures:
            # closed-escape-set contracts without a functional postcondition: the obligation on a
            # normal exit is only that the path exists and ends normally (recorded, trivially true)
            ip.prove(f'{label}.returns-normally', z3.BoolVal(True))
        for lab, ens in c.ensures:
            try:
                goal = ip.spec_bool(ens, senv, fr.old)
            except (EngineError, TypeError) as ex:
                # the postcondition cannot even be evaluated on what the function returned on this
                # path (wrong Python type, e.g. an exception object where a list is specified)
                ip.results.append(Obligation(f'{label}.post.{lab}', 'failed', list(c.props), 0.0, 'typing',
                                             detail=f'postcondition ill-typed for the returned value: {ex}'))
                ip.results[-1].path = '/'.join(x or '?' for x in ip.labels[:ip.pos])
                continue
            if lab in c.kf:
                # a listed known finding delimits a class of failing inputs: outside the class
                # the obligation must hold; inside it the failure is reported as KNOWN-FINDING
                kfid, when = c.kf[lab]
                w = ip.spec_bool(when, senv, fr.old)
                ip.prove(f'{label}.post.{lab}[outside-{kfid}]', z3.Implies(z3.Not(w), goal))
                ip.prove(f'{label}.post.{lab}', goal, kf=kfid)
            else:
                ip.prove(f'{label}.post.{lab}', goal)
        if isinstance(selfv, VObj) and c.maintains_inv:
            spec = self.reg.classes.get(selfv.cls)
            for lab, inv in (spec.inv if spec else []):
                ip.prove(f'{label}.inv.{lab}', ip.spec_bool(inv, {'self': selfv}))
        return ('return',)

    # ------------------------------------------------------------------------------------
    def verify_lemma(self, name):
        ax = self.reg.axioms[name]
        results = []
        cases = ax.cases or [None]
        for ci, case in enumerate(cases):
            ip = Interp(self, [])
            ip.cur_props = ax.props
            ip.cur_fn = f'lemma.{name}'
            ip.mode = 'spec'
            env = {p: k.fresh(ip, p) for p, k in ax.params.items()}
            fr = Frame(None, f'lemma:{name}', env)
            for h in ax.hyps:
                ip.assume(ip.spec_bool(h, env))
            if case is not None:
                ip.assume(ip.spec_bool(case, env))
            r = ip.solver.check()
            if r == z3.unsat and case is None:
                raise EngineError(f'lemma {name}: hypotheses unsatisfiable')
            ip.ghost_exec(ax.proof, fr)
            suffix = f'.case{ci}' if case is not None else ''
            ip.prove(f'lemma.{name}{suffix}', ip.spec_bool(ax.body, fr.env))
            results.extend(ip.results)
        if ax.cases:
            # the cases must be exhaustive
            ip = Interp(self, [])
            ip.cur_props = ax.props
            ip.mode = 'spec'
            env = {p: k.fresh(ip, p) for p, k in ax.params.items()}
            for h in ax.hyps:
                ip.assume(ip.spec_bool(h, env))
            ip.prove(f'lemma.{name}.cases-exhaustive', z3.Or(*[ip.spec_bool(cs, env) for cs in ax.cases]))
            results.extend(ip.results)
        return results


def start_cvc5(smt2, tlimit_s):
    f = tempfile.NamedTemporaryFile('w', suffix='.smt2', delete=False)
    f.write('(set-logic ALL)\n' + smt2)
    f.close()
    p = subprocess.Popen(['/usr/bin/cvc5', '--strings-exp', f'--tlimit={tlimit_s * 1000}', f.name],
                         stdout=subprocess.PIPE, stderr=subprocess.STDOUT, text=True)
    p._path = f.name
    p._tl = tlimit_s
    return p


def kill_cvc5(p):
    try:
        p.kill()
        p.wait(timeout=5)
    except Exception:   # noqa
        pass
    try:
        os.unlink(p._path)
    except OSError:
        pass


def finish_cvc5(p):
    try:
        out, _ = p.communicate(timeout=p._tl + 5)
    except subprocess.TimeoutExpired:
        kill_cvc5(p)
        return 'unknown', 'timeout'
    try:
        os.unlink(p._path)
    except OSError:
        pass
    out = (out or '').strip()
    first = out.splitlines()[0].strip() if out else ''
    return (first if first in ('sat', 'unsat') else 'unknown'), out


def run_cvc5(smt2, tlimit_s):
    '''Second opinion on z3's unknowns.  z3-only syntax (array lambdas) makes cvc5 reject
    the file: that is reported as unknown.'''
    try:
        with tempfile.NamedTemporaryFile('w', suffix='.smt2', delete=False) as f:
            f.write('(set-logic ALL)\n' + smt2)
            path = f.name
        try:
            p = subprocess.run(['/usr/bin/cvc5', '--strings-exp', f'--tlimit={tlimit_s * 1000}', path],
                               capture_output=True, text=True, timeout=tlimit_s + 5)
            out = (p.stdout + p.stderr).strip()
        finally:
            os.unlink(path)
        first = out.splitlines()[0].strip() if out else ''
        if first in ('sat', 'unsat'):
            return first, out
        return 'unknown', out
    except Exception as e:   # noqa
        return 'unknown', f'cvc5 not run: {e}'


# ---------------------------------------------------------------------------------------------
# model extraction

def model_value(m, v, depth=0):
    '''A JSON-able rendering of a symbolic value under a model.'''
    from .builtins import VStr, VBytes, VFloat, J_sort
    ev = lambda t: m.eval(t, model_completion=True)
    if isinstance(v, VConst):
        return repr(v.py) if isinstance(v.py, bytes) else v.py
    if isinstance(v, VInt):
        return ev(v.t).as_long()
    if isinstance(v, VBool):
        return z3.is_true(ev(v.t))
    if isinstance(v, VReal):
        return str(ev(v.t))
    if isinstance(v, VJ):
        return j_value(m, ev(v.t))
    if isinstance(v, VOptTerm):
        s_ = v.kind.sort()
        t = ev(v.t)
        if z3.is_true(ev(s_.recognizer(0)(t))):
            return None
        return model_value(m, v.kind.inner.wrap(ev(s_.accessor(1, 0)(t)), None), depth + 1)
    if isinstance(v, VStr):
        return ev(v.t).as_string()
    if isinstance(v, VU):
        return str(ev(v.t))
    if isinstance(v, VList):
        n = ev(v.n).as_long()
        if v.ek is None:
            return []
        out = []
        for i in range(min(n, 16)):
            out.append(model_value(m, v.ek.wrap(ev(z3.Select(v.arr, i)), None), depth + 1))
        return {'len': n, 'items': out}
    if isinstance(v, VTuple):
        return [model_value(m, x, depth + 1) for x in v.items]
    if isinstance(v, VObj):
        if depth > 2:
            return f'<{v.cls}>'
        return {k: model_value(m, x, depth + 1) for k, x in v.fields.items()
                if not isinstance(x, (VFunc, VClass))}
    if isinstance(v, (VSet, VDict)):
        t = v.dom if isinstance(v, VSet) else v.dom
        return str(ev(t)) if t is not None else '{}'
    if isinstance(v, VBytes):
        return str(ev(v.t))
    return repr(v)


def j_value(m, t):
    from .builtins import J_sort
    s = J_sort()
    ev = lambda x: m.eval(x, model_completion=True)
    if z3.is_true(ev(s.is_JNull(t))):
        return {'j': 'null'}
    if z3.is_true(ev(s.is_JBool(t))):
        return {'j': 'bool', 'v': z3.is_true(ev(s.jb(t)))}
    if z3.is_true(ev(s.is_JInt(t))):
        return {'j': 'int', 'v': ev(s.ji(t)).as_long()}
    if z3.is_true(ev(s.is_JFloat(t))):
        fk = ev(s.jfk(t)).as_long()
        return {'j': 'float', 'class': ['finite', '+inf', '-inf', 'nan'][fk] if 0 <= fk <= 3 else fk,
                'v': str(ev(s.jfr(t)))}
    if z3.is_true(ev(s.is_JStr(t))):
        return {'j': 'str', 'v': ev(s.js(t)).as_string()}
    if z3.is_true(ev(s.is_JList(t))):
        return {'j': 'list'}
    return {'j': 'dict'}
